// vcheck is the single binary behind every registered check: `vcheck drive` is the driver (builds the
// sanitizer variants from /repo's working tree, shards cases over child processes, merges their results,
// applies known_findings.json, writes evidence and replays), `vcheck child` runs cases in-process.
package main

import (
	"encoding/json"
	"flag"
	"fmt"
	"os"
	"strconv"

	"verif/internal/checks"
	"verif/internal/vf"
)

func main() {
	if len(os.Args) < 2 {
		fmt.Println("usage: vcheck drive|child|list …")
		os.Exit(2)
	}
	switch os.Args[1] {
	case "list":
		for _, c := range checks.All() {
			fmt.Println(c.ID)
		}
	case "drive":
		fs := flag.NewFlagSet("drive", flag.ExitOnError)
		prop := fs.String("prop", "", "property id")
		tier := fs.String("tier", "quick", "quick|thorough")
		root := fs.String("root", "/verif", "verif root")
		only := fs.Int("only", -1, "replay a single case index")
		build := fs.String("build", "", "restrict to one build variant")
		replay := fs.String("replay", "", "replay file written on a violation")
		_ = fs.Parse(os.Args[2:])
		seed := uint64(1)
		if s := os.Getenv("VERIF_SEED"); s != "" {
			if v, err := strconv.ParseUint(s, 10, 64); err == nil {
				seed = v
			}
		}
		if t := os.Getenv("VERIF_TIER"); t == "quick" || t == "thorough" {
			if !isFlagSet(fs, "tier") {
				*tier = t
			}
		}
		if *replay != "" {
			b, err := os.ReadFile(*replay)
			if err != nil {
				fmt.Println(err)
				os.Exit(2)
			}
			var rp struct {
				Violation vf.Violation `json:"violation"`
			}
			if err := json.Unmarshal(b, &rp); err != nil {
				fmt.Println(err)
				os.Exit(2)
			}
			*prop, seed, *only, *build = rp.Violation.Property, rp.Violation.Seed, rp.Violation.Case, rp.Violation.Build
			if rp.Violation.Tier != "" {
				*tier = rp.Violation.Tier
			}
		}
		chk := checks.Get(*prop)
		if chk == nil {
			fmt.Println("unknown property", *prop)
			os.Exit(2)
		}
		os.Exit(vf.Drive(chk, vf.DriveOpts{Root: *root, Tier: *tier, Seed: seed, Only: *only, Build: *build}))
	case "child":
		fs := flag.NewFlagSet("child", flag.ExitOnError)
		prop := fs.String("prop", "", "")
		tier := fs.String("tier", "quick", "")
		build := fs.String("build", "plain", "")
		seed := fs.Uint64("seed", 1, "")
		shard := fs.Int("shard", 0, "")
		shards := fs.Int("shards", 1, "")
		from := fs.Int("from", 0, "")
		n := fs.Int("n", 1, "")
		out := fs.String("out", "", "")
		only := fs.Int("only", -1, "")
		_ = fs.Parse(os.Args[2:])
		chk := checks.Get(*prop)
		if chk == nil {
			fmt.Println("unknown property", *prop)
			os.Exit(2)
		}
		vf.RunChild(chk, *tier, *build, *seed, *shard, *shards, *from, *n, *out, *only)
	default:
		fmt.Println("unknown command", os.Args[1])
		os.Exit(2)
	}
}

func isFlagSet(fs *flag.FlagSet, name string) bool {
	set := false
	fs.Visit(func(f *flag.Flag) {
		if f.Name == name {
			set = true
		}
	})
	return set
}
