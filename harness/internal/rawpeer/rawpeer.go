// Package rawpeer holds the other end of every connection as a raw non-blocking descriptor driven by the
// same goroutine that runs the event loop, so that a script (peer actions interleaved with polls) is
// deterministic. It also provides the kernel-side oracles: poll(2) readiness and the /proc/self/fd census.
package rawpeer

import (
	"fmt"
	"net"
	"os"
	"sort"
	"strconv"
	"syscall"
	"time"

	"golang.org/x/sys/unix"
)

// Listen4 creates a raw non-blocking TCP listener on 127.0.0.1:0.
func Listen4() (fd int, port int, err error) {
	fd, err = syscall.Socket(syscall.AF_INET, syscall.SOCK_STREAM|syscall.SOCK_NONBLOCK|syscall.SOCK_CLOEXEC, 0)
	if err != nil {
		return -1, 0, err
	}
	_ = syscall.SetsockoptInt(fd, syscall.SOL_SOCKET, syscall.SO_REUSEADDR, 1)
	if err = syscall.Bind(fd, &syscall.SockaddrInet4{Addr: [4]byte{127, 0, 0, 1}}); err != nil {
		syscall.Close(fd)
		return -1, 0, err
	}
	if err = syscall.Listen(fd, 128); err != nil {
		syscall.Close(fd)
		return -1, 0, err
	}
	sa, err := syscall.Getsockname(fd)
	if err != nil {
		syscall.Close(fd)
		return -1, 0, err
	}
	return fd, sa.(*syscall.SockaddrInet4).Port, nil
}

// Accept accepts one pending connection from a raw listener (non-blocking).
func Accept(lfd int) (int, int, error) {
	for i := 0; i < 2000; i++ {
		fd, sa, err := syscall.Accept4(lfd, syscall.SOCK_NONBLOCK|syscall.SOCK_CLOEXEC)
		if err == nil {
			port := 0
			if a, ok := sa.(*syscall.SockaddrInet4); ok {
				port = a.Port
			}
			return fd, port, nil
		}
		if err != syscall.EAGAIN && err != syscall.EINTR {
			return -1, 0, err
		}
		WaitReadable(lfd, 5)
	}
	return -1, 0, fmt.Errorf("rawpeer: accept timed out")
}

// Connect4 starts a non-blocking connect to 127.0.0.1:port and returns the socket and its local port.
func Connect4(port int) (int, int, error) {
	fd, err := syscall.Socket(syscall.AF_INET, syscall.SOCK_STREAM|syscall.SOCK_NONBLOCK|syscall.SOCK_CLOEXEC, 0)
	if err != nil {
		return -1, 0, err
	}
	err = syscall.Connect(fd, &syscall.SockaddrInet4{Addr: [4]byte{127, 0, 0, 1}, Port: port})
	if err != nil && err != syscall.EINPROGRESS {
		syscall.Close(fd)
		return -1, 0, err
	}
	// loopback connects complete at once; wait for writability to be sure
	pfd := []unix.PollFd{{Fd: int32(fd), Events: unix.POLLOUT}}
	for tries := 0; tries < 50; tries++ {
		if _, perr := unix.Poll(pfd, 1000); perr != syscall.EINTR {
			break
		}
	}
	sa, err := syscall.Getsockname(fd)
	if err != nil {
		syscall.Close(fd)
		return -1, 0, err
	}
	return fd, sa.(*syscall.SockaddrInet4).Port, nil
}

// UDP4 creates a raw non-blocking UDP socket bound to ip:0.
func UDP4(ip [4]byte) (int, int, error) {
	fd, err := syscall.Socket(syscall.AF_INET, syscall.SOCK_DGRAM|syscall.SOCK_NONBLOCK|syscall.SOCK_CLOEXEC, 0)
	if err != nil {
		return -1, 0, err
	}
	if err = syscall.Bind(fd, &syscall.SockaddrInet4{Addr: ip}); err != nil {
		syscall.Close(fd)
		return -1, 0, err
	}
	sa, err := syscall.Getsockname(fd)
	if err != nil {
		syscall.Close(fd)
		return -1, 0, err
	}
	return fd, sa.(*syscall.SockaddrInet4).Port, nil
}

func WaitReadable(fd int, ms int) bool {
	pfd := []unix.PollFd{{Fd: int32(fd), Events: unix.POLLIN}}
	deadline := time.Now().Add(time.Duration(ms) * time.Millisecond)
	for {
		n, err := unix.Poll(pfd, ms)
		if err == syscall.EINTR { // the Go runtime preempts with signals: wait for the rest of the interval
			left := time.Until(deadline)
			if left <= 0 {
				return false
			}
			ms = int(left/time.Millisecond) + 1
			continue
		}
		return n > 0
	}
}

// Ready returns the revents poll(2) reports for fd right now.
func Ready(fd int, events int16) int16 {
	pfd := []unix.PollFd{{Fd: int32(fd), Events: events}}
	for {
		_, err := unix.Poll(pfd, 0)
		if err == syscall.EINTR {
			continue
		}
		break
	}
	return pfd[0].Revents
}

// WriteSome writes up to len(b) bytes without blocking; returns what the kernel took.
func WriteSome(fd int, b []byte) (int, error) {
	total := 0
	for total < len(b) {
		n, err := syscall.Write(fd, b[total:])
		if err == syscall.EINTR {
			continue
		}
		if err != nil {
			return total, err
		}
		total += n
	}
	return total, nil
}

// Drain reads everything currently readable; returns the bytes, and eof/err.
func Drain(fd int, max int) (data []byte, eof bool, err error) {
	buf := make([]byte, 64*1024)
	for len(data) < max {
		n, e := syscall.Read(fd, buf)
		if e == syscall.EINTR {
			continue
		}
		if e == syscall.EAGAIN {
			return data, false, nil
		}
		if e != nil {
			return data, false, e
		}
		if n == 0 {
			return data, true, nil
		}
		data = append(data, buf[:n]...)
	}
	return data, false, nil
}

// Reset closes the socket with an RST (SO_LINGER {1,0}).
func Reset(fd int) {
	_ = syscall.SetsockoptLinger(fd, syscall.SOL_SOCKET, syscall.SO_LINGER, &syscall.Linger{Onoff: 1, Linger: 0})
	_ = syscall.Close(fd)
}

func SetBufs(fd int, snd, rcv int) {
	if snd > 0 {
		_ = syscall.SetsockoptInt(fd, syscall.SOL_SOCKET, syscall.SO_SNDBUF, snd)
	}
	if rcv > 0 {
		_ = syscall.SetsockoptInt(fd, syscall.SOL_SOCKET, syscall.SO_RCVBUF, rcv)
	}
}

// Census is a snapshot of the descriptor table: number -> link target.
type Census map[int]string

func TakeCensus() Census {
	c := Census{}
	d, err := os.Open("/proc/self/fd")
	if err != nil {
		return c
	}
	self := int(d.Fd())
	names, _ := d.Readdirnames(-1)
	for _, n := range names {
		fd, err := strconv.Atoi(n)
		if err != nil || fd == self {
			continue
		}
		target, err := os.Readlink("/proc/self/fd/" + n)
		if err != nil {
			continue
		}
		c[fd] = target
	}
	d.Close()
	return c
}

// Diff returns descriptors present in b but not in a (opened) and present in a but not in b (closed), or
// whose target changed.
func (a Census) Diff(b Census) (opened, closed []string) {
	for fd, t := range b {
		if at, ok := a[fd]; !ok {
			opened = append(opened, fmt.Sprintf("%d->%s", fd, t))
		} else if at != t {
			opened = append(opened, fmt.Sprintf("%d->%s(was %s)", fd, t, at))
		}
	}
	for fd, t := range a {
		if _, ok := b[fd]; !ok {
			closed = append(closed, fmt.Sprintf("%d->%s", fd, t))
		}
	}
	sort.Strings(opened)
	sort.Strings(closed)
	return
}

func FdValid(fd int) bool {
	_, err := unix.FcntlInt(uintptr(fd), unix.F_GETFD, 0)
	return err == nil
}

func AddrOf(port int) string { return net.JoinHostPort("127.0.0.1", strconv.Itoa(port)) }
