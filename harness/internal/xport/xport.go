// Package xport is a scripted in-memory sonic.Stream: the harness decides how the byte stream is
// segmented on the read side, how much each write accepts, where would-block / EOF / errors are injected
// and whether asynchronous operations complete inline or later (from a queue the harness pumps).
package xport

import (
	"errors"
	"io"

	"github.com/talostrading/sonic"
	"github.com/talostrading/sonic/sonicerrors"
)

var ErrInjected = errors.New("xport: injected transport error")

type End int

const (
	EndWouldBlock End = iota // no more data for now: sync reads return ErrWouldBlock, async reads park
	EndEOF
	EndError
)

type pendingRead struct {
	b   []byte
	all bool
	got int
	cb  sonic.AsyncCallback
}

type Transport struct {
	// read side
	segs    [][]byte
	End     End
	parked  *pendingRead
	// completion of async operations: inline (false) or through the deferred queue (true)
	DeferReads  bool
	DeferWrites bool
	deferred    []func()

	// write side
	WriteMax        int   // max bytes accepted per underlying write step (0 = unlimited)
	WriteBlockOnce  int   // number of upcoming synchronous Write calls that return ErrWouldBlock
	WriteBlockAt    int   // a synchronous Write returns ErrWouldBlock once when this many bytes were accepted in total (-1 never)
	WriteFailAfter  int   // inject ErrInjected once this many bytes were accepted in total (-1 never)
	Written         []byte
	WriteCalls      int
	AsyncWriteCalls int
	// HoldWrites keeps asynchronous writes pending (transport not writable) until ReleaseWrites.
	HoldWrites bool
	heldWrites []func()
	heldCbs    []sonic.AsyncCallback // callbacks of heldWrites, same order (CancelWrites completes these)

	Closed      bool
	CancelCalls int
	ReadCalls   int
	// MaxOfferedRead records the largest buffer handed to a read (how much the reader was ready to buffer)
	MaxOfferedRead int
}

func New() *Transport { return &Transport{WriteFailAfter: -1, WriteBlockAt: -1} }

var _ sonic.Stream = (*Transport)(nil)

func (t *Transport) RawFd() int { return -1 }

// Feed appends a segment to the read side. A parked asynchronous read is completed with it.
func (t *Transport) Feed(seg []byte) {
	if len(seg) > 0 {
		t.segs = append(t.segs, append([]byte(nil), seg...))
	}
	t.wake()
}

// SetEnd changes what happens when the segments are exhausted and wakes a parked read if needed.
func (t *Transport) SetEnd(e End) {
	t.End = e
	t.wake()
}

func (t *Transport) wake() {
	if t.parked == nil {
		return
	}
	if len(t.segs) == 0 && t.End == EndWouldBlock {
		return
	}
	p := t.parked
	t.parked = nil
	t.complete(t.DeferReads, func() { t.asyncReadStep(p) })
}

func (t *Transport) complete(deferIt bool, fn func()) {
	if deferIt {
		t.deferred = append(t.deferred, fn)
	} else {
		fn()
	}
}

// Pump runs deferred completions until none is left (completions may enqueue more). It returns how many
// ran.
func (t *Transport) Pump() int {
	n := 0
	for len(t.deferred) > 0 && n < 100000 {
		fn := t.deferred[0]
		t.deferred = t.deferred[1:]
		fn()
		n++
	}
	return n
}

// PumpOne runs a single deferred completion, if any.
func (t *Transport) PumpOne() bool {
	if len(t.deferred) == 0 {
		return false
	}
	fn := t.deferred[0]
	t.deferred = t.deferred[1:]
	fn()
	return true
}

func (t *Transport) DeferredLen() int { return len(t.deferred) }
func (t *Transport) ReadParked() bool { return t.parked != nil }
func (t *Transport) Unread() int {
	n := 0
	for _, s := range t.segs {
		n += len(s)
	}
	return n
}

// readSome returns at most one segment's worth of bytes.
func (t *Transport) readSome(b []byte) (int, error) {
	t.ReadCalls++
	if len(b) > t.MaxOfferedRead {
		t.MaxOfferedRead = len(b)
	}
	if t.Closed {
		return 0, io.EOF
	}
	if len(t.segs) == 0 {
		switch t.End {
		case EndEOF:
			return 0, io.EOF
		case EndError:
			return 0, ErrInjected
		}
		return 0, sonicerrors.ErrWouldBlock
	}
	if len(b) == 0 {
		// like read(2) on a descriptor through sonic's file/conn: a zero-length read moves nothing and is
		// reported as end-of-file
		return 0, io.EOF
	}
	n := copy(b, t.segs[0])
	if n == len(t.segs[0]) {
		t.segs = t.segs[1:]
	} else {
		t.segs[0] = t.segs[0][n:]
	}
	return n, nil
}

func (t *Transport) Read(b []byte) (int, error) { return t.readSome(b) }

func (t *Transport) AsyncRead(b []byte, cb sonic.AsyncCallback) {
	p := &pendingRead{b: b, cb: cb}
	t.complete(t.DeferReads, func() { t.asyncReadStep(p) })
}

func (t *Transport) AsyncReadAll(b []byte, cb sonic.AsyncCallback) {
	p := &pendingRead{b: b, all: true, cb: cb}
	t.complete(t.DeferReads, func() { t.asyncReadStep(p) })
}

func (t *Transport) asyncReadStep(p *pendingRead) {
	for {
		n, err := t.readSome(p.b[p.got:])
		p.got += n
		if err == sonicerrors.ErrWouldBlock {
			t.parked = p
			return
		}
		if err != nil {
			p.cb(err, p.got)
			return
		}
		if !p.all || p.got == len(p.b) {
			p.cb(nil, p.got)
			return
		}
	}
}

func (t *Transport) accept(b []byte) (int, error) {
	if t.Closed {
		return 0, io.ErrClosedPipe
	}
	if t.WriteFailAfter >= 0 && len(t.Written) >= t.WriteFailAfter {
		return 0, ErrInjected
	}
	n := len(b)
	if t.WriteMax > 0 && n > t.WriteMax {
		n = t.WriteMax
	}
	if t.WriteFailAfter >= 0 && len(t.Written)+n > t.WriteFailAfter {
		n = t.WriteFailAfter - len(t.Written)
	}
	t.Written = append(t.Written, b[:n]...)
	return n, nil
}

func (t *Transport) Write(b []byte) (int, error) {
	t.WriteCalls++
	if t.WriteBlockOnce > 0 {
		t.WriteBlockOnce--
		return 0, sonicerrors.ErrWouldBlock
	}
	if t.WriteBlockAt >= 0 {
		if len(t.Written) >= t.WriteBlockAt {
			t.WriteBlockAt = -1
			return 0, sonicerrors.ErrWouldBlock
		}
		if room := t.WriteBlockAt - len(t.Written); len(b) > room {
			b = b[:room]
		}
	}
	return t.accept(b)
}

func (t *Transport) asyncWrite(b []byte, all bool, cb sonic.AsyncCallback) {
	t.AsyncWriteCalls++
	run := func() {
		done := 0
		for {
			n, err := t.accept(b[done:])
			done += n
			if err != nil {
				cb(err, done)
				return
			}
			if !all || done == len(b) {
				cb(nil, done)
				return
			}
		}
	}
	if t.HoldWrites {
		t.heldWrites = append(t.heldWrites, run)
		t.heldCbs = append(t.heldCbs, cb)
		return
	}
	t.complete(t.DeferWrites, run)
}

// ReleaseWrites makes the transport writable again: held asynchronous writes complete (in order).
func (t *Transport) ReleaseWrites() {
	t.HoldWrites = false
	held := t.heldWrites
	t.heldWrites, t.heldCbs = nil, nil
	for _, fn := range held {
		t.complete(t.DeferWrites, fn)
	}
}

// ReleaseOneWrite lets the oldest held asynchronous write complete and keeps holding: a write started from its
// completion (the next frame of a flush chain) is held again.
func (t *Transport) ReleaseOneWrite() bool {
	if len(t.heldWrites) == 0 {
		return false
	}
	fn := t.heldWrites[0]
	t.heldWrites = t.heldWrites[1:]
	t.heldCbs = t.heldCbs[1:]
	t.complete(t.DeferWrites, fn)
	return true
}

func (t *Transport) HeldWrites() int { return len(t.heldWrites) }

// CancelWrites completes every held asynchronous write with ErrCancelled and no bytes accepted - what Cancel() on a
// real descriptor does to a write parked on a full send buffer.
func (t *Transport) CancelWrites() int {
	cbs := t.heldCbs
	t.heldWrites, t.heldCbs = nil, nil
	for _, cb := range cbs {
		cb := cb
		t.complete(t.DeferWrites, func() { cb(sonicerrors.ErrCancelled, 0) })
	}
	return len(cbs)
}

func (t *Transport) AsyncWrite(b []byte, cb sonic.AsyncCallback)    { t.asyncWrite(b, false, cb) }
func (t *Transport) AsyncWriteAll(b []byte, cb sonic.AsyncCallback) { t.asyncWrite(b, true, cb) }

func (t *Transport) Cancel() {
	t.CancelCalls++
	if p := t.parked; p != nil {
		t.parked = nil
		p.cb(sonicerrors.ErrCancelled, p.got)
	}
}

func (t *Transport) Close() error {
	t.Closed = true
	return nil
}
