// Package wsref is an RFC 6455 frame encoder and parser written for the harness, independent of the
// library's own Frame type. It is the oracle for what the client reads and writes.
package wsref

import (
	"encoding/binary"
	"fmt"
)

const (
	OpCont   = 0
	OpText   = 1
	OpBinary = 2
	OpClose  = 8
	OpPing   = 9
	OpPong   = 10
)

type Frame struct {
	Fin, Rsv1, Rsv2, Rsv3 bool
	Opcode                byte
	Masked                bool
	Key                   [4]byte
	Payload               []byte // unmasked application bytes

	// LenEnc forces the length encoding: 0 = shortest legal, 7, 16 or 64 (non-minimal encodings are
	// legal to produce here - the harness plays hostile peers too).
	LenEnc int
	// Declared, when non-nil, overrides the declared payload length (the payload bytes actually appended
	// stay len(Payload)).
	Declared *uint64
}

func (f Frame) String() string {
	return fmt.Sprintf("{fin=%v rsv=%v%v%v op=%d masked=%v len=%d enc=%d}", f.Fin, f.Rsv1, f.Rsv2, f.Rsv3, f.Opcode, f.Masked, len(f.Payload), f.LenEnc)
}

// Encode serializes the frame.
func (f Frame) Encode() []byte {
	var b []byte
	b0 := f.Opcode & 0x0f
	if f.Fin {
		b0 |= 0x80
	}
	if f.Rsv1 {
		b0 |= 0x40
	}
	if f.Rsv2 {
		b0 |= 0x20
	}
	if f.Rsv3 {
		b0 |= 0x10
	}
	b = append(b, b0)
	n := uint64(len(f.Payload))
	if f.Declared != nil {
		n = *f.Declared
	}
	enc := f.LenEnc
	if enc == 0 {
		switch {
		case n <= 125:
			enc = 7
		case n <= 65535:
			enc = 16
		default:
			enc = 64
		}
	}
	var b1 byte
	if f.Masked {
		b1 = 0x80
	}
	switch enc {
	case 7:
		b = append(b, b1|byte(n&0x7f))
	case 16:
		b = append(b, b1|126, byte(n>>8), byte(n))
	default:
		b = append(b, b1|127)
		var l [8]byte
		binary.BigEndian.PutUint64(l[:], n)
		b = append(b, l[:]...)
	}
	if f.Masked {
		b = append(b, f.Key[:]...)
		for i, v := range f.Payload {
			b = append(b, v^f.Key[i&3])
		}
	} else {
		b = append(b, f.Payload...)
	}
	return b
}

type Status int

const (
	OK Status = iota
	NeedMore
	TooBig
)

// Parsed is the result of parsing one frame from the front of a byte string.
type Parsed struct {
	Frame
	DeclaredLen uint64
	HeaderLen   int  // bytes before the payload
	Size        int  // total bytes of the frame (HeaderLen + DeclaredLen), valid when Status == OK
	Minimal     bool // the length used the shortest legal encoding
	Raw         []byte
}

// Parse parses the frame at the front of b. max < 0 means no limit. TooBig is reported as soon as the
// length field is complete (before mask and payload), NeedMore whenever a field is incomplete.
func Parse(b []byte, max int64) (Parsed, Status) {
	var p Parsed
	if len(b) < 2 {
		return p, NeedMore
	}
	p.Fin = b[0]&0x80 != 0
	p.Rsv1 = b[0]&0x40 != 0
	p.Rsv2 = b[0]&0x20 != 0
	p.Rsv3 = b[0]&0x10 != 0
	p.Opcode = b[0] & 0x0f
	p.Masked = b[1]&0x80 != 0
	l7 := b[1] & 0x7f
	off := 2
	switch l7 {
	case 126:
		if len(b) < off+2 {
			return p, NeedMore
		}
		p.DeclaredLen = uint64(binary.BigEndian.Uint16(b[off:]))
		off += 2
		p.LenEnc = 16
		p.Minimal = p.DeclaredLen > 125
	case 127:
		if len(b) < off+8 {
			return p, NeedMore
		}
		p.DeclaredLen = binary.BigEndian.Uint64(b[off:])
		off += 8
		p.LenEnc = 64
		p.Minimal = p.DeclaredLen > 65535
	default:
		p.DeclaredLen = uint64(l7)
		p.LenEnc = 7
		p.Minimal = true
	}
	if max >= 0 && (p.DeclaredLen > uint64(max) || p.DeclaredLen >= 1<<63) {
		return p, TooBig
	}
	if p.DeclaredLen >= 1<<62 {
		return p, TooBig // cannot be buffered by anything
	}
	if p.Masked {
		if len(b) < off+4 {
			return p, NeedMore
		}
		copy(p.Key[:], b[off:off+4])
		off += 4
	}
	p.HeaderLen = off
	if uint64(len(b)-off) < p.DeclaredLen {
		return p, NeedMore
	}
	end := off + int(p.DeclaredLen)
	p.Size = end
	p.Raw = b[:end]
	p.Payload = make([]byte, p.DeclaredLen)
	copy(p.Payload, b[off:end])
	if p.Masked {
		for i := range p.Payload {
			p.Payload[i] ^= p.Key[i&3]
		}
	}
	return p, OK
}

// ParseAll splits a byte string into frames; rest is what is left over (an incomplete frame).
func ParseAll(b []byte, max int64) (frames []Parsed, rest []byte, st Status) {
	for len(b) > 0 {
		p, s := Parse(b, max)
		if s != OK {
			return frames, b, s
		}
		frames = append(frames, p)
		b = b[p.Size:]
	}
	return frames, nil, OK
}

// ClosePayload builds a Close frame payload.
func ClosePayload(code uint16, reason string) []byte {
	b := []byte{byte(code >> 8), byte(code)}
	return append(b, reason...)
}
