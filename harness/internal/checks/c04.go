package checks

import (
	"fmt"
	"time"

	"github.com/talostrading/sonic"

	"verif/internal/sim"
	"verif/internal/vf"
)

// C04 - timers: never early, at most once, never after cancel/close, one schedule at a time.
//
// Oracle: a reference model of each timer {ready, scheduled(deadline, repeating), closed} updated in
// lock-step with the calls, the monotonic clock read immediately before each Schedule* call and at
// callback entry, and callback counts per schedule.

const (
	tReady = iota
	tScheduled
	tClosed
)

type c04Timer struct {
	id        int
	T         *sonic.Timer
	state     int
	sched     int // id of the current schedule
	repeating bool
	d         time.Duration
	tCall     time.Time
	tAfter    time.Time // read right after the Schedule* call returned: the kernel timer was armed before this instant
	lastFire  time.Time
	fires     map[int]int
	long      bool
}

type c04World struct {
	c      *vf.Case
	r      *vf.Rand
	w      *sim.World
	timers []*c04Timer
	// statistics
	firings, crossOps, batches2, ticks int
	minSlack                           time.Duration
	inCallback                         int
	selfSchedulesInRepeating           int
	zeroDelayAfterOwnCancel            int
	fractionalDelays                   int
	cancelsOfOwnClosedTimerInCallback  int
	createdInOwnCallbackAfterClose     int
	zeroDelayNotInline                 int
	inRepeatingCallbackOf              map[*c04Timer]int
	firedThisPoll                      int
}

func c04Eps(d time.Duration) time.Duration { return 50*time.Microsecond + d/1000 }

func (x *c04World) stateName(s int) string { return [...]string{"ready", "scheduled", "closed"}[s] }

func (x *c04World) checkScheduled(t *c04Timer, after string) {
	if x.c.Failed() {
		return
	}
	got := t.T.Scheduled()
	want := t.state == tScheduled
	if got != want && x.inRepeatingCallbackOf[t] > 0 {
		// queried from inside the timer's own repeating callback: the listed finding
		x.c.SoftFailf("scheduled-flag-differs/in-repeating-callback", "timer %d after %s, inside its own repeating callback: Scheduled()=%v, the next tick is still due", t.id, after, got)
		return
	}
	if got != want {
		x.c.Failf("scheduled-flag-differs/"+x.stateName(t.state), "timer %d after %s: Scheduled()=%v, model state is %s", t.id, after, got, x.stateName(t.state))
	}
}

func (x *c04World) behave(self *c04Timer, what string) {
	r := x.r
	if len(x.timers) == 0 {
		return
	}
	other := x.timers[r.Intn(len(x.timers))]
	expired := other != self && other.state == tScheduled && !other.long && time.Since(other.tCall) >= other.d
	switch r.Intn(8) {
	case 0:
		x.c.Logf("      handler(%s): cancel timer %d (expired-but-unprocessed=%v)", what, other.id, expired)
		x.cancel(other)
	case 1:
		x.c.Logf("      handler(%s): close timer %d (expired-but-unprocessed=%v)", what, other.id, expired)
		x.close(other)
		if other == self && len(x.timers) < 12 && r.Bool() && !x.c.Failed() {
			// ... and a new timer is created before the callback returns: it receives the descriptor number just released;
			// whatever the library does with the closed timer after the callback must not land on the new one
			if nt := x.newTimer(); nt != nil {
				x.c.Logf("      handler(%s): ... and creates timer %d before returning", what, nt.id)
				x.schedule(nt, time.Duration(r.Range(1, 20))*time.Millisecond, r.Bool())
				x.createdInOwnCallbackAfterClose++
			}
		}
	case 2:
		d := time.Duration(r.Range(200, 5000)) * time.Millisecond
		if r.Bool() {
			d = time.Duration(r.Range(8, 40)) * time.Millisecond // short enough to come due within the script
		}
		x.c.Logf("      handler(%s): cancel and re-schedule timer %d with delay %v (expired-but-unprocessed=%v)", what, other.id, d, expired)
		x.cancel(other)
		x.schedule(other, d, false)
	case 3:
		if self != nil && self.state == tReady {
			x.c.Logf("      handler(%s): re-schedule itself", what)
			x.schedule(self, time.Duration(r.Range(1, 20))*time.Millisecond, false)
		}
	case 4:
		if self != nil && self.repeating && self.state == tScheduled {
			x.c.Logf("      handler(%s): cancel itself (repeating)", what)
			x.cancel(self)
		}
	case 5:
		if self != nil && self.repeating && self.state == tScheduled {
			// the repeating schedule is still held while its callback runs: another Schedule* must fail and leave it alone
			x.c.Logf("      handler(%s): schedules its own repeating timer again (must be refused, the series goes on)", what)
			x.schedule(self, time.Duration(r.Range(1, 20))*time.Millisecond, r.Bool())
			x.selfSchedulesInRepeating++
			if r.Bool() && !x.c.Failed() {
				x.c.Logf("      handler(%s): ... and then cancels itself", what)
				x.cancel(self)
			}
		}
	case 6:
		if self != nil && self.repeating && self.state == tScheduled {
			// the callback ends its own series and starts something new, and may think better of that too
			x.c.Logf("      handler(%s): cancels its own repeating series, schedules itself anew ...", what)
			x.cancel(self)
			if !x.c.Failed() {
				if r.Chance(1, 3) {
					// ... something that runs at once: the cancelled series stays cancelled
					x.schedule(self, time.Duration(-r.Intn(2))*time.Millisecond, false)
					x.zeroDelayAfterOwnCancel++
				} else {
					x.schedule(self, time.Duration(r.Range(1, 20))*time.Millisecond, r.Bool())
				}
			}
			if r.Bool() && !x.c.Failed() {
				x.c.Logf("      handler(%s): ... and cancels that again", what)
				x.cancel(self)
			}
		}
	case 7:
		if self != nil && self.repeating && self.state == tScheduled && len(x.timers) < 12 {
			// the series ends by Close from inside its own callback, and a new timer is created before the callback returns:
			// it receives the descriptor number just released; whatever the library does with the closed timer after the
			// callback (the series' re-arm) must not land on the new one, and the closed timer stays closed
			x.c.Logf("      handler(%s): closes its own repeating timer and creates a new one before returning", what)
			x.close(self)
			if r.Bool() && !x.c.Failed() {
				// ... and goes on using the closed timer from the same callback: Cancel is harmless, no schedule is accepted
				x.c.Logf("      handler(%s): ... then cancels the closed timer", what)
				x.cancel(self)
				x.cancelsOfOwnClosedTimerInCallback++
			}
			if nt := x.newTimer(); nt != nil && !x.c.Failed() {
				if r.Bool() {
					x.c.Logf("      handler(%s): ... and tries to schedule the closed timer again", what)
					x.schedule(self, time.Duration(r.Range(-1, 20))*time.Millisecond, r.Bool())
				}
				if x.c.Failed() {
					return
				}
				if r.Bool() {
					x.schedule(nt, time.Duration(r.Range(1, 20))*time.Millisecond, r.Bool())
				}
				x.createdInOwnCallbackAfterClose++
			}
		}
	default:
		return
	}
	if expired {
		x.crossOps++
	}
}

func (x *c04World) schedule(t *c04Timer, d time.Duration, repeating bool) {
	c := x.c
	if d > 0 && d < 100*time.Millisecond && x.r.Chance(1, 3) {
		// delays and intervals are not whole milliseconds: 2.9 ms is not 2 ms, 0.3 ms is not "never"
		d = d - time.Millisecond + time.Duration(x.r.Range(1, 999))*time.Microsecond
		x.fractionalDelays++
	}
	prev := t.state
	id := t.sched + 1
	var cb func()
	cb = func() {
		now := time.Now()
		x.inCallback++
		defer func() { x.inCallback-- }()
		if repeating {
			x.inRepeatingCallbackOf[t]++
			defer func() { x.inRepeatingCallbackOf[t]-- }()
		}
		x.firedThisPoll++
		c.Logf("    <- timer %d fires (schedule %d, %v after the call, requested %v)", t.id, id, now.Sub(t.tCall), d)
		if t.state == tClosed {
			c.Failf("timer-fired-after-close", "timer %d: callback of schedule %d ran after Close returned", t.id, id)
			return
		}
		if t.sched != id || t.state != tScheduled {
			c.Failf("timer-fired-after-cancel", "timer %d: callback of schedule %d ran although that schedule was cancelled (model state %s, current schedule %d)", t.id, id, x.stateName(t.state), t.sched)
			return
		}
		ref := t.tCall
		if repeating && !t.lastFire.IsZero() {
			ref = t.lastFire
		}
		slack := now.Sub(ref) - d
		if d > 0 && slack < -c04Eps(d) {
			key := "timer-fired-early"
			if repeating && !t.lastFire.IsZero() {
				key = "repeating-timer-ticks-closer-than-interval"
			}
			c.Failf(key, "timer %d: callback ran %v after the reference point, requested delay %v (early by %v)", t.id, now.Sub(ref), d, -slack)
			return
		}
		if d > 0 && (x.minSlack == 0 || slack < x.minSlack) {
			x.minSlack = slack
		}
		t.fires[id]++
		x.firings++
		if !repeating {
			if t.fires[id] > 1 {
				c.Failf("timer-fired-twice", "timer %d: callback of one ScheduleOnce ran %d times", t.id, t.fires[id])
				return
			}
			t.state = tReady
		} else {
			t.lastFire = now
			x.ticks++
		}
		if t.T.Scheduled() != (t.state == tScheduled) {
			if repeating {
				// listed finding (the pinned suite asserts this value): recorded without ending the case
				c.SoftFailf("scheduled-flag-differs/in-repeating-callback", "timer %d: Scheduled()=%v inside the callback of a repeating schedule, whose next tick is still due", t.id, t.T.Scheduled())
			} else {
				c.Failf("scheduled-flag-differs/in-callback", "timer %d: Scheduled()=%v inside the callback of a one-shot schedule (nothing is due any more)", t.id, t.T.Scheduled())
			}
		}
		x.behave(t, fmt.Sprintf("timer %d", t.id))
	}
	tCall := time.Now()
	var err error
	if repeating {
		err = t.T.ScheduleRepeating(d, cb)
	} else {
		// d <= 0 runs the callback at once: set the model first
		if prev == tReady {
			t.sched, t.state, t.repeating, t.d, t.tCall, t.lastFire, t.long = id, tScheduled, false, d, tCall, time.Time{}, d >= 150*time.Millisecond
		}
		err = t.T.ScheduleOnce(d, cb)
	}
	if prev == tReady {
		t.tAfter = time.Now()
	}
	c.Logf("  timer %d: Schedule%s(%v) in state %s -> %v", t.id, map[bool]string{true: "Repeating", false: "Once"}[repeating], d, x.stateName(prev), err)
	switch prev {
	case tReady:
		if repeating {
			if d <= 0 {
				if err == nil {
					c.Failf("repeating-nonpositive-interval-accepted", "ScheduleRepeating(%v) returned nil", d)
				}
			} else if err == nil {
				t.sched, t.state, t.repeating, t.d, t.tCall, t.lastFire, t.long = id, tScheduled, true, d, tCall, time.Time{}, d >= 150*time.Millisecond
			} else {
				c.Failf("schedule-failed-on-ready-timer", "timer %d: ScheduleRepeating(%v) on a ready timer returned %v", t.id, d, err)
			}
		} else if err != nil {
			c.Failf("schedule-failed-on-ready-timer", "timer %d: ScheduleOnce(%v) on a ready timer returned %v", t.id, d, err)
			t.state = tReady
		} else if d <= 0 && t.fires[id] > 1 {
			c.Failf("timer-fired-twice", "timer %d: ScheduleOnce(%v) ran its callback %d times before returning", t.id, d, t.fires[id])
		} else if d <= 0 && t.fires[id] == 0 {
			// "as soon as possible" need not be "before ScheduleOnce returns": then the callback is still due, the model
			// keeps the schedule (Scheduled() must say so, Cancel must withdraw it, it must run when the loop is polled)
			x.zeroDelayNotInline++
		}
	case tScheduled:
		if err == nil {
			c.Failf("schedule-while-scheduled-accepted", "timer %d: scheduling while a schedule is pending returned nil (a timer holds at most one schedule)", t.id)
		}
	case tClosed:
		if err == nil {
			c.Failf("closed-timer-revived", "timer %d: scheduling a closed timer returned nil", t.id)
		}
	}
	x.checkScheduled(t, "Schedule")
}

func (x *c04World) cancel(t *c04Timer) {
	err := t.T.Cancel()
	x.c.Logf("  timer %d: Cancel() in state %s -> %v", t.id, x.stateName(t.state), err)
	if err == nil && t.state == tScheduled {
		t.state = tReady
		t.sched++ // invalidates the pending schedule: its callback must never run
	} else if err != nil && t.state != tClosed {
		x.c.Failf("cancel-failed", "timer %d: Cancel() in state %s returned %v", t.id, x.stateName(t.state), err)
	}
	x.checkScheduled(t, "Cancel")
}

func (x *c04World) close(t *c04Timer) {
	err := t.T.Close()
	x.c.Logf("  timer %d: Close() in state %s -> %v", t.id, x.stateName(t.state), err)
	if err == nil {
		t.state = tClosed
		t.sched++
	} else if t.state != tClosed {
		x.c.Failf("close-failed", "timer %d: Close() returned %v", t.id, err)
	}
	x.checkScheduled(t, "Close")
}

func (x *c04World) newTimer() *c04Timer {
	T, err := sonic.NewTimer(x.w.IOC)
	if err != nil {
		x.c.Failf("harness-setup", "NewTimer: %v", err)
		return nil
	}
	t := &c04Timer{id: len(x.timers), T: T, fires: map[int]int{}}
	x.timers = append(x.timers, t)
	return t
}

// zeroDelayChain: ScheduleOnce(<=0) from inside the callback of ScheduleOnce(<=0), depth levels deep (more than the
// library's callback-nesting limit). At every level: either the callback has run when ScheduleOnce returns, or it is
// still due - then Scheduled() says so and a Cancel keeps it from ever running.
func (x *c04World) zeroDelayChain(depth int) {
	c := x.c
	var pendingAfterCancel []*bool
	var level func(i int)
	level = func(i int) {
		if i >= depth || c.Failed() {
			return
		}
		T, err := sonic.NewTimer(x.w.IOC)
		if err != nil {
			c.Failf("harness-setup", "NewTimer: %v", err)
			return
		}
		defer T.Close()
		ran := new(bool)
		cancelled := false
		err = T.ScheduleOnce(0, func() {
			if cancelled {
				c.Failf("timer-fired-after-cancel", "zero-delay chain, nesting level %d: the callback ran after a successful Cancel", i)
				return
			}
			*ran = true
			level(i + 1)
		})
		if err != nil {
			c.Failf("schedule-failed-on-ready-timer", "zero-delay chain, nesting level %d: ScheduleOnce(0) returned %v", i, err)
			return
		}
		if !*ran {
			if !T.Scheduled() {
				c.Failf("scheduled-flag-differs/zero-delay", "zero-delay chain, nesting level %d: ScheduleOnce(0) returned without having run the callback, and Scheduled() is false although the callback is still due", i)
				return
			}
			if cerr := T.Cancel(); cerr == nil {
				cancelled = true
				pendingAfterCancel = append(pendingAfterCancel, ran)
			}
		}
	}
	level(0)
	for i := 0; i < 4 && !c.Failed(); i++ {
		x.poll()
	}
	c.Count("zero_delay_chains", 1)
	c.Max("zero_delay_chain_depth", int64(depth))
}

func (x *c04World) poll() {
	x.firedThisPoll = 0
	x.w.Poll()
	if x.firedThisPoll >= 2 {
		x.batches2++
	}
}

func runC04(c *vf.Case) {
	r := c.Rng
	w, err := sim.NewWorld(c)
	if err != nil {
		c.Failf("harness-setup", "NewWorld: %v", err)
		return
	}
	defer w.Teardown()
	w.LostCheck = false
	x := &c04World{c: c, r: r, w: w, inRepeatingCallbackOf: map[*c04Timer]int{}}
	defer func() {
		for _, t := range x.timers {
			if t.state != tClosed {
				_ = t.T.Close()
			}
		}
	}()
	for i := 0; i < r.Range(2, 6); i++ {
		if x.newTimer() == nil {
			return
		}
	}
	var conns []*sim.Obj
	for i := 0; i < r.Intn(3); i++ {
		if o, err := w.NewObj(sim.KConnDialed, false); err == nil {
			conns = append(conns, o)
		}
	}
	if r.Chance(1, 6) {
		x.zeroDelayChain(r.Range(20, 70))
	}
	steps := r.Range(10, 40)
	for s := 0; s < steps && !c.Failed(); s++ {
		t := x.timers[r.Intn(len(x.timers))]
		switch k := r.Intn(16); {
		case k <= 3:
			d := []time.Duration{0, -time.Millisecond, time.Millisecond, time.Millisecond, 3 * time.Millisecond, 3 * time.Millisecond}[r.Intn(6)]
			if r.Chance(1, 3) {
				d = time.Duration(r.Range(5, 40)) * time.Millisecond
			}
			if r.Chance(1, 2) {
				d = 3 * time.Millisecond // several timers share an expiry
			}
			x.schedule(t, d, false)
		case k == 4:
			x.schedule(t, time.Duration(r.Range(1, 6))*time.Millisecond, true)
		case k == 5:
			x.cancel(t)
		case k == 6:
			if r.Chance(1, 2) {
				x.close(t)
			}
		case k == 7:
			if len(x.timers) < 10 {
				nt := x.newTimer() // descriptor numbers of closed timers get reused
				if nt != nil {
					c.Logf("  NewTimer -> timer %d", nt.id)
				}
			}
		case k == 8 && len(conns) > 0:
			o := conns[r.Intn(len(conns))]
			if o.Rd == nil && !o.Closed {
				w.NextOnDone = func(op *sim.Op) { x.behave(nil, "read on "+o.String()) }
				w.StartStream(o, 0, false, 8, sim.BNone, nil, true)
				w.PeerWrite(o, 4)
			}
		case k <= 11:
			// sleep past the expiry of the short schedules so that they share one batch
			var maxd time.Duration
			for _, tt := range x.timers {
				if tt.state == tScheduled && !tt.long {
					if rem := tt.d - time.Since(tt.tAfter); rem > maxd {
						maxd = rem
					}
				}
			}
			if maxd > 0 {
				time.Sleep(maxd + 1500*time.Microsecond)
			}
			// every short one-shot schedule whose deadline has passed must run within 3 poll cycles
			var due []*c04Timer
			var dueIDs []int
			for _, tt := range x.timers {
				if tt.state == tScheduled && !tt.long && !tt.repeating && time.Since(tt.tAfter) > tt.d+time.Millisecond {
					due = append(due, tt)
					dueIDs = append(dueIDs, tt.sched)
				}
			}
			// a repeating schedule whose next tick is overdue must tick again as well
			var dueRep []*c04Timer
			var dueRepIDs, dueRepTicks []int
			for _, tt := range x.timers {
				ref := tt.tAfter
				if !tt.lastFire.IsZero() {
					ref = tt.lastFire
				}
				if tt.state == tScheduled && tt.repeating && time.Since(ref) > tt.d+time.Millisecond {
					dueRep = append(dueRep, tt)
					dueRepIDs = append(dueRepIDs, tt.sched)
					dueRepTicks = append(dueRepTicks, tt.fires[tt.sched])
				}
			}
			for i := 0; i < 3; i++ {
				x.poll()
			}
			stalled := func() *c04Timer {
				for i, tt := range dueRep {
					if tt.state == tScheduled && tt.sched == dueRepIDs[i] && tt.fires[dueRepIDs[i]] == dueRepTicks[i] {
						return tt
					}
				}
				return nil
			}
			for dl := time.Now().Add(3 * time.Second); stalled() != nil && time.Now().Before(dl) && !c.Failed(); {
				time.Sleep(200 * time.Microsecond)
				x.poll()
			}
			if tt := stalled(); tt != nil && !c.Failed() {
				c.Failf("repeating-timer-stopped", "timer %d: repeating schedule %d (interval %v) was neither cancelled nor closed, its next tick is overdue and it did not tick although the loop kept polling for 3 s (%d ticks so far)", tt.id, tt.sched, tt.d, tt.fires[tt.sched])
			}
			// The expiry is delivered by a kernel timer interrupt, which a loaded (virtual) CPU can delay by
			// milliseconds: keep polling, and only call it lost after 3 s of wall-clock time (bounded progress).
			pending := func() *c04Timer {
				for i, tt := range due {
					if tt.state == tScheduled && tt.sched == dueIDs[i] && tt.fires[dueIDs[i]] == 0 {
						return tt
					}
				}
				return nil
			}
			for dl := time.Now().Add(3 * time.Second); pending() != nil && time.Now().Before(dl) && !c.Failed(); {
				time.Sleep(200 * time.Microsecond)
				x.poll()
				c.Count("waits_for_delayed_timer_interrupt", 1)
			}
			if tt := pending(); tt != nil && !c.Failed() {
				c.Failf("timer-did-not-fire", "timer %d: schedule %d (delay %v) is %v past its deadline, was never cancelled, and did not run although the loop kept polling for 3 s", tt.id, tt.sched, tt.d, time.Since(tt.tCall)-tt.d)
			}
		default:
			x.poll()
		}
		for _, tt := range x.timers {
			x.checkScheduled(tt, "step")
		}
	}
	// final phase: everything still scheduled with a short delay is cancelled; nothing may fire afterwards
	if !c.Failed() {
		for _, tt := range x.timers {
			if tt.state == tScheduled && !tt.long {
				x.cancel(tt)
			}
		}
		time.Sleep(45 * time.Millisecond)
		for i := 0; i < 4 && !c.Failed(); i++ {
			x.poll()
		}
	}
	c.Count("firings_checked", x.firings)
	c.Count("batches_with_ge2_expired_timers", x.batches2)
	c.Count("cross_handler_ops_on_expired_unprocessed_timer", x.crossOps)
	c.Count("repeating_ticks", x.ticks)
	c.Count("schedule_calls_on_a_repeating_timer_from_its_own_callback", x.selfSchedulesInRepeating)
	c.Count("zero_delay_schedules_after_cancelling_the_own_repeating_series", x.zeroDelayAfterOwnCancel)
	c.Count("schedules_with_a_delay_that_is_not_a_whole_number_of_milliseconds", x.fractionalDelays)
	c.Count("timers_created_inside_a_callback_right_after_the_timer_closed_itself", x.createdInOwnCallbackAfterClose)
	c.Count("cancels_of_the_own_closed_timer_inside_its_repeating_callback", x.cancelsOfOwnClosedTimerInCallback)
	c.Count("zero_delay_callbacks_still_due_when_the_call_returned", x.zeroDelayNotInline)
	if x.minSlack != 0 {
		c.Min("min_slack_ns", int64(x.minSlack))
	}
	if x.crossOps > 0 || x.batches2 > 0 {
		c.NonTrivial(fmt.Sprintf("t%d/c%d/b%d/f%d", len(x.timers), min(x.crossOps, 6), min(x.batches2, 6), min(x.firings, 12)))
	}
}

func init() {
	register(&vf.Check{
		ID:        "C04",
		Technique: "runtime monitor: per-timer reference model in lock-step with the calls + monotonic clock at Schedule* call and at callback entry + callback counts per schedule, over scripts where several timers and I/O objects expire/become ready in the same poll batch and handlers cancel/close/re-arm each other",
		Rule: "delays of a third of the schedules are not whole milliseconds (down to 1 us); handlers of repeating timers also cancel their series and schedule with a delay <= 0, or close their timer and create a new one before returning; a zero-delay callback need not have run when ScheduleOnce returns (it is then still due); " +
			"cases = scripts of 10-40 steps over 2-10 timers and 0-2 TCP conns on one IO: ScheduleOnce(d) with d from {<=0, 1 ms, 3 ms, 5-40 ms} (many sharing the same expiry), ScheduleRepeating(1-6 ms), Cancel, Close, NewTimer (descriptor reuse), forced-deferred reads made ready, 'sleep past the expiry then poll' so that expired timers share a batch, handlers that cancel / close / cancel-and-re-arm (200 ms-5 s) another timer, re-schedule or cancel themselves; " +
			"non-trivial = a handler acted on a timer that had expired but was not yet processed in its batch, or a batch fired >= 2 timers; distinct = (timers, such operations, such batches, firings)",
		Assumptions: []string{
			"lateness is never a violation; 'does run' is only checked after the harness itself observed the deadline pass; the loop is then polled for up to 3 s (a loaded virtual CPU can delay the timer interrupt by milliseconds)",
			"epsilon for 'never early' = 50 us + 0.1 % of the delay (timerfd is on CLOCK_REALTIME, the monitor reads the monotonic clock)",
			"a repeating timer's interval is measured between consecutive callback entries",
		},
		NumCases: func(tier, build string) int { return vf.Tiered(tier, 720, 40000) },
		Shards:   func(tier, build string) int { return 16 },
		Floor:    func(tier string) int { return vf.Tiered(tier, 40, 500) },
		Run:      runC04,
	})
}
