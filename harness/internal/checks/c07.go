package checks

import (
	"bytes"
	"errors"
	"fmt"
	"time"

	"github.com/talostrading/sonic"
	"github.com/talostrading/sonic/codec/websocket"
	"github.com/talostrading/sonic/sonicerrors"

	"verif/internal/vf"
	"verif/internal/wsref"
)

// C07 - the WebSocket frame decoder is total, bounded and stays in sync.
//
// Oracle: wsref.Parse (a pure function of the byte string: frame+size / need-more / too-big) evaluated on
// exactly the bytes the decoder has been given so far, differential across splits of the same byte
// string, canary-poisoned spare capacity, and a bound on the buffer's capacity.

func lenClass(n uint64, max int64) string {
	switch {
	case n == 0:
		return "0"
	case n <= 125:
		return "1-125"
	case n == 126:
		return "126"
	case n == 127:
		return "127"
	case n < 65535:
		return "128-65534"
	case n == 65535:
		return "65535"
	case n == 65536:
		return "65536"
	case max >= 0 && n == uint64(max):
		return "max"
	case max >= 0 && n == uint64(max)+1:
		return "max+1"
	case n >= 1<<63:
		return ">=2^63"
	case n >= 1<<31:
		return "2^31..2^63"
	default:
		return ">65536"
	}
}

func c07RandomFrame(r *vf.Rand, max int64, allowBig bool) wsref.Frame {
	f := wsref.Frame{
		Fin: r.Chance(2, 3), Rsv1: r.Chance(1, 8), Rsv2: r.Chance(1, 8), Rsv3: r.Chance(1, 8),
		Opcode: byte(r.Intn(16)), Masked: r.Chance(1, 3),
	}
	copy(f.Key[:], r.Bytes(4))
	lens := []int{0, 1, 125, 126, 127, 300}
	if allowBig {
		lens = append(lens, 65535, 65536)
		if max >= 0 && max <= 1<<20 {
			lens = append(lens, int(max), int(max)+1)
		}
	} else if max >= 0 && max <= 2048 {
		lens = append(lens, int(max), int(max)+1)
	}
	n := lens[r.Intn(len(lens))]
	if r.Chance(1, 4) {
		n = r.Intn(200)
	}
	f.Payload = r.Bytes(n)
	if r.Chance(1, 5) {
		// non-shortest encodings
		switch {
		case n <= 125:
			f.LenEnc = []int{16, 64}[r.Intn(2)]
		case n <= 65535:
			f.LenEnc = 64
		}
	}
	return f
}

// c07Feed feeds input in the given chunks to a fresh decoder and checks every Decode against the
// reference. It returns a short outcome string used for the differential across splits.
func c07Feed(c *vf.Case, input []byte, cuts []int, max int, label string) string {
	src := sonic.NewByteBuffer()
	dst := sonic.NewByteBuffer()
	codec := websocket.NewFrameCodec(src, dst, max)
	return c07FeedOn(c, codec, src, input, cuts, max, label)
}

// c07Abandon: a byte stream is abandoned in the middle of a frame (the decoder has asked for more), the application
// empties the source buffer and feeds another stream to the same decoder: that stream is judged like any other.
func c07Abandon(c *vf.Case, r *vf.Rand, max int) {
	src := sonic.NewByteBuffer()
	dst := sonic.NewByteBuffer()
	codec := websocket.NewFrameCodec(src, dst, max)
	first := wsref.Frame{Fin: true, Opcode: 2, Masked: r.Bool(), Payload: r.Bytes(r.Range(8, min(max, 3000)))}
	enc := first.Encode()
	k := r.Range(1, len(enc)-1)
	_, _ = src.Write(enc[:k])
	if _, err := codec.Decode(src); !errors.Is(err, sonicerrors.ErrNeedMore) {
		c.Failf("needmore-where-reference-differs", "abandoned stream: Decode of the first %d of %d bytes of a frame returned %v", k, len(enc), err)
		return
	}
	src.Reset()
	var input []byte
	for i := 0; i < r.Range(1, 3); i++ {
		input = append(input, c07RandomFrame(r, int64(max), false).Encode()...)
	}
	var cuts []int
	for i := 0; i < r.Intn(3); i++ {
		cuts = append(cuts, r.Intn(len(input)+1))
	}
	sortInts(cuts)
	c.Logf("stream abandoned after %d of %d bytes of a frame, buffer emptied, then %d bytes of another stream cut at %v on the same decoder", k, len(enc), len(input), cuts)
	c07FeedOn(c, codec, src, input, cuts, max, "stream after an abandoned one")
	c.Count("streams_fed_after_an_abandoned_one", 1)
}

func c07FeedOn(c *vf.Case, codec *websocket.FrameCodec, src *sonic.ByteBuffer, input []byte, cuts []int, max int, label string) string {
	fed, consumed := 0, 0
	commitAll := c.Rng.Bool()
	if commitAll {
		c.Count("feeds_with_everything_committed_up_front", 1)
	}
	pendingSize := 0 // size of the frame returned by the previous Decode (consumed lazily by the next one)
	outcome := ""
	bounds := append(append([]int(nil), cuts...), len(input))
	prev := 0
	for _, end := range bounds {
		if end < prev || end > len(input) {
			continue
		}
		chunk := input[prev:end]
		prev = end
		if len(chunk) > 0 {
			_, _ = src.Write(chunk)
			if commitAll {
				// the caller's side of the ByteBuffer workflow: what was written is committed (readable) before the
				// decoder looks at it, so the read area may hold several frames at once
				src.Commit(len(chunk))
			}
			fed += len(chunk)
		}
		for iter := 0; ; iter++ {
			src.Claim(func(p []byte) int { // poison the spare capacity
				for i := range p {
					p[i] = 0xA5
				}
				return 0
			})
			f, err := codec.Decode(src)
			consumed += pendingSize
			pendingSize = 0
			exp, st := wsref.Parse(input[consumed:fed], int64(max))
			c.Count("decode_calls", 1)
			if capBound := 2*(fed+max+14) + 1024; src.Cap() > capBound {
				c.Failf("buffer-grew-beyond-bound", "%s: after %d bytes with max=%d the buffer capacity is %d (> %d)", label, fed, max, src.Cap(), capBound)
				return outcome
			}
			switch {
			case err == nil:
				if st != wsref.OK {
					c.Failf("frame-yielded-where-reference-has-none", "%s: Decode yielded a %d-byte frame after %d bytes; reference says %v (declared length %d, max %d)", label, len(f), fed, stName(st), exp.DeclaredLen, max)
					return outcome
				}
				if !bytes.Equal([]byte(f), exp.Raw) {
					c.Failf("frame-bytes-differ", "%s: frame %d bytes differ from the received bytes [%d,%d) (got %d bytes, want %d, first diff %d)", label, len(outcome), consumed, consumed+exp.Size, len(f), exp.Size, firstDiff(f, exp.Raw))
					return outcome
				}
				// accessors must agree with the reference and must not panic
				if f.IsFIN() != exp.Fin || f.IsRSV1() != exp.Rsv1 || f.IsRSV2() != exp.Rsv2 || f.IsRSV3() != exp.Rsv3 ||
					byte(f.Opcode()) != exp.Opcode || f.IsMasked() != exp.Masked || uint64(f.PayloadLength()) != exp.DeclaredLen {
					c.Failf("frame-accessors-differ", "%s: accessors of the decoded frame disagree with the reference parse %v", label, exp.Frame)
					return outcome
				}
				if pl := f.Payload(); len(pl) != int(exp.DeclaredLen) || !bytes.Equal(pl, exp.Raw[exp.HeaderLen:]) {
					c.Failf("frame-payload-differs", "%s: Payload() has %d bytes, declared %d", label, len(pl), exp.DeclaredLen)
					return outcome
				}
				if exp.Masked && !bytes.Equal(f.Mask(), exp.Key[:]) {
					c.Failf("frame-mask-differs", "%s: Mask() differs from the key on the wire", label)
				}
				if want := fed - consumed; src.Len() != want {
					c.Failf("buffer-out-of-sync-after-frame", "%s: after yielding frame %d the buffer holds %d bytes, %d received bytes are not yet consumed", label, len(outcome), src.Len(), want)
					return outcome
				}
				pendingSize = exp.Size
				outcome += "F"
				c.Count("frames_decoded", 1)
				c.Cover("length_class", lenClass(exp.DeclaredLen, int64(max)))
				continue
			case errors.Is(err, sonicerrors.ErrNeedMore):
				if st != wsref.NeedMore {
					c.Failf("needmore-where-reference-differs", "%s: Decode asked for more after %d bytes (consumed %d); reference says %v (declared %d, max %d)", label, fed, consumed, stName(st), exp.DeclaredLen, max)
					return outcome
				}
				if want := fed - consumed; src.Len() != want {
					c.Failf("buffer-out-of-sync-after-needmore", "%s: buffer holds %d bytes, %d received bytes are not yet consumed", label, src.Len(), want)
					return outcome
				}
			default:
				if st != wsref.TooBig {
					c.Failf("error-where-reference-differs", "%s: Decode returned %v after %d bytes; reference says %v", label, err, fed, stName(st))
					return outcome
				}
				c.Count("toobig_rejections", 1)
				if fed-consumed < exp.HeaderLen+int(min(exp.DeclaredLen, 1<<30)) {
					c.Count("toobig_before_payload_complete", 1)
				}
				c.Cover("length_class", lenClass(exp.DeclaredLen, int64(max)))
				return outcome + "E"
			}
			break
		}
	}
	return outcome + "N"
}

func stName(s wsref.Status) string {
	return [...]string{"frame", "need-more", "too-big"}[s]
}

func runC07(c *vf.Case) {
	r := c.Rng
	maxes := []int{0, 125, 1024, 70000, websocket.DefaultMaxMessageSize}
	max := maxes[r.Intn(len(maxes))]
	if max > 70000 && !r.Chance(1, 8) {
		max = 1024
	}
	if max >= 125 && c.Index%16 == 11 {
		c07Abandon(c, r, max)
		if c.Failed() {
			return
		}
	}
	pool := r.Intn(5)
	var input []byte
	desc := ""
	switch pool {
	case 0, 1: // valid frames, concatenated
		k := r.Range(1, 5)
		for i := 0; i < k; i++ {
			f := c07RandomFrame(r, int64(max), pool == 1 && r.Chance(1, 3))
			input = append(input, f.Encode()...)
			desc += f.String()
		}
		pool = 0
	case 2: // one header field mutated
		f := c07RandomFrame(r, int64(max), false)
		input = f.Encode()
		pos := r.Intn(min(len(input), 14))
		input[pos] ^= byte(1 << r.Intn(8))
		g := c07RandomFrame(r, int64(max), false)
		input = append(input, g.Encode()...)
		desc = fmt.Sprintf("mutated byte %d of %v then %v", pos, f, g)
	case 3: // hostile 64-bit lengths
		hostile := []uint64{1 << 31, 1 << 32, 1 << 62, 1<<63 - 1, 1 << 63, 1<<63 + 5, 1<<64 - 1, 1<<64 - 14, uint64(max) + 1}
		d := hostile[r.Intn(len(hostile))]
		f := wsref.Frame{Fin: true, Opcode: byte(r.Intn(16)), Masked: r.Bool(), LenEnc: 64, Declared: &d, Payload: r.Bytes(r.Intn(40))}
		if r.Chance(1, 3) {
			g := c07RandomFrame(r, int64(max), false)
			if uint64(len(g.Payload)) <= uint64(max) {
				input = append(input, g.Encode()...)
			}
		}
		input = append(input, f.Encode()...)
		desc = fmt.Sprintf("declared length %d (%#x) with %d payload bytes present", d, d, len(f.Payload))
	default: // random bytes
		input = r.Bytes(r.Intn(64))
		if len(input) > 1 && r.Bool() {
			input[1] &= 0x7f // unmasked more often
		}
		desc = "random bytes"
	}
	c.Logf("max=%d pool=%d input=%d bytes: %s", max, pool, len(input), desc)
	if len(input) <= 40 {
		c.Logf("input hex=%x", input)
	} else {
		c.Logf("input head hex=%x…", input[:40])
	}

	whole := c07Feed(c, input, nil, max, "whole")
	c.Count("inputs", 1)
	c.Cover("pool", fmt.Sprint(pool))
	c.Cover("outcome_shape", whole[:min(len(whole), 8)])
	splitClass := "whole"
	if !c.Failed() {
		// every split offset for short strings (of the first 64 bytes), random offsets otherwise
		limit := min(len(input), 64)
		for cut := 1; cut < limit && !c.Failed(); cut++ {
			if len(input) > 64 && !r.Chance(1, 4) {
				continue
			}
			got := c07Feed(c, input, []int{cut}, max, fmt.Sprintf("split@%d", cut))
			if got != whole && !c.Failed() {
				c.Failf("outcome-depends-on-split", "fed whole: %q, split at %d: %q", whole, cut, got)
			}
			c.Count("split_runs", 1)
			c.Cover("split_offset", fmt.Sprint(cut))
			splitClass = "every-offset"
		}
		if !c.Failed() && len(input) > 2 {
			var cuts []int
			for i := 0; i < r.Range(2, 4); i++ {
				cuts = append(cuts, r.Intn(len(input)))
			}
			sortInts(cuts)
			got := c07Feed(c, input, cuts, max, fmt.Sprintf("splits@%v", cuts))
			if got != whole && !c.Failed() {
				c.Failf("outcome-depends-on-split", "fed whole: %q, split at %v: %q", whole, cuts, got)
			}
			c.Count("split_runs", 1)
		}
		if !c.Failed() && len(input) <= 300 && r.Chance(1, 3) {
			cuts := make([]int, 0, len(input))
			for i := 1; i < len(input); i++ {
				cuts = append(cuts, i)
			}
			got := c07Feed(c, input, cuts, max, "byte-at-a-time")
			if got != whole && !c.Failed() {
				c.Failf("outcome-depends-on-split", "fed whole: %q, byte at a time: %q", whole, got)
			}
			c.Count("split_runs", 1)
			splitClass = "byte-at-a-time"
		}
	}

	// Encode -> Decode identity through the library's own Frame API
	if !c.Failed() && r.Chance(1, 2) {
		c07Identity(c, r)
	}
	hb := byte(0)
	if len(input) > 0 {
		hb = input[0]
	}
	c.NonTrivial(fmt.Sprintf("p%d/%02x/%d/%s/%s", pool, hb, max, whole[:min(len(whole), 6)], splitClass))
}

func sortInts(a []int) {
	for i := 1; i < len(a); i++ {
		for j := i; j > 0 && a[j] < a[j-1]; j-- {
			a[j], a[j-1] = a[j-1], a[j]
		}
	}
}

func c07Identity(c *vf.Case, r *vf.Rand) {
	lens := []int{0, 1, 125, 126, 127, 65535, 65536, 70000}
	n := lens[r.Intn(len(lens))]
	if n > 127 && !r.Chance(1, 4) {
		n = r.Intn(300)
	}
	src := sonic.NewByteBuffer()
	dst := sonic.NewByteBuffer()
	if r.Chance(1, 3) {
		// the frame is as large as the room in the destination buffer, give or take a few bytes (a fresh buffer, the 4096
		// bytes a stream reserves, or a buffer with another frame still waiting in it)
		switch r.Intn(3) {
		case 1:
			dst.Reserve(4096)
		case 2:
			dst.Reserve(4096)
			backlog := r.Bytes(r.Range(1, 4000))
			_, _ = dst.Write(backlog)
			dst.Commit(len(backlog))
		}
		n = max(0, dst.Reserved()-r.Intn(20)+2)
		c.Count("identity_roundtrips_with_a_frame_about_as_large_as_the_free_room", 1)
	}
	backlogLen := dst.ReadLen()
	payload := r.Bytes(n)
	f := websocket.NewFrame()
	if r.Chance(1, 3) {
		// the frame object has carried another payload before (no Reset in between): nothing of it may show in the header
		prev := []int{0, 1, 3, 5, 77, 125, 126, 200, 65535, 65536}[r.Intn(10)]
		f.SetPayload(r.Bytes(prev))
		c.Count("identity_roundtrips_on_a_reused_frame", 1)
	}
	fin, r1, r2, r3 := r.Bool(), r.Chance(1, 4), r.Chance(1, 4), r.Chance(1, 4)
	op := byte(r.Intn(16))
	masked := r.Bool()
	if fin {
		f.SetFIN()
	}
	if r1 {
		f.SetRSV1()
	}
	if r2 {
		f.SetRSV2()
	}
	if r3 {
		f.SetRSV3()
	}
	f.SetOpcode(websocket.Opcode(op))
	if masked {
		f.SetIsMasked()
	}
	f.SetPayload(payload)
	if masked {
		f.MaskPayload()
	}
	codec := websocket.NewFrameCodec(src, dst, 1<<20)
	if err := codec.Encode(f, dst); err != nil {
		c.Failf("encode-error", "Encode of a %d-byte frame returned %v", n, err)
		return
	}
	if dst.ReadLen() < backlogLen {
		c.Failf("encoder-dropped-earlier-bytes", "the destination buffer held %d readable bytes before Encode and %d after", backlogLen, dst.ReadLen())
		return
	}
	wire := append([]byte(nil), dst.Data()[backlogLen:]...)
	p, st := wsref.Parse(wire, -1)
	c.Logf("identity: fin=%v rsv=%v%v%v op=%d masked=%v len=%d -> %d wire bytes", fin, r1, r2, r3, op, masked, n, len(wire))
	if st != wsref.OK || p.Size != len(wire) {
		c.Failf("encoder-output-not-one-frame", "encoder output (%d bytes) does not parse as exactly one frame (status %v, size %d)", len(wire), stName(st), p.Size)
		return
	}
	if p.Fin != fin || p.Rsv1 != r1 || p.Rsv2 != r2 || p.Rsv3 != r3 || p.Opcode != op || p.Masked != masked || !bytes.Equal(p.Payload, payload) || !p.Minimal {
		c.Failf("encoder-output-differs", "encoder output parses as %v minimal=%v, built fin=%v rsv=%v%v%v op=%d masked=%v len=%d", p.Frame, p.Minimal, fin, r1, r2, r3, op, masked, n)
		return
	}
	_, _ = src.Write(wire)
	g, err := codec.Decode(src)
	if err != nil || !bytes.Equal([]byte(g), wire) {
		c.Failf("encode-decode-not-identity", "Decode(Encode(frame)) returned err=%v and %d bytes for %d wire bytes", err, len(g), len(wire))
		return
	}
	c.Count("identity_roundtrips", 1)
	c.Cover("identity_header", fmt.Sprintf("fin=%v rsv=%v%v%v op=%d masked=%v len=%s", fin, r1, r2, r3, op, masked, lenClass(uint64(n), -1)))
}

func init() {
	register(&vf.Check{
		ID:        "C07",
		Technique: "differential runtime monitor: every Decode call compared with an independent RFC 6455 reference parser on exactly the bytes received so far, across whole/every-offset/random/byte-at-a-time splits; canary-poisoned capacity; capacity bound; checkptr build",
		Rule: "one case in sixteen first abandons a stream in the middle of a frame (the decoder has asked for more), empties the source buffer and feeds another stream to the same decoder, judged like any other; feeds are committed piece by piece or completely up front; a third of the identity round trips reuse a Frame object that carried another payload before, a third use a frame about as large as the free room of the destination buffer (fresh, 4096 bytes reserved, or part-filled); " +
			"cases = byte strings from four pools (wsref-encoded valid frames over FIN/RSV/opcode 0-15/mask x lengths {0,1,125,126,127,300,65535,65536,max,max+1} in shortest and non-shortest encodings, 1-5 concatenated; one header bit flipped; hostile 64-bit declared lengths {2^31,2^32,2^62,2^63-1,2^63,2^63+5,2^64-14,2^64-1,max+1}; random bytes) x maxMessageSize in {0,125,1024,70000,default}, each fed whole, split at every offset of the first 64 bytes, at random offsets and byte-at-a-time, plus Encode->Decode round trips through the library's Frame API; " +
			"every case is non-trivial (hostile input is the point); distinct = (pool, first header byte, max, outcome shape, split class)",
		Assumptions: []string{
			"the decoder validates structure only (reserved bits/opcodes are the stream's job, C15): the reference does the same",
			"declared lengths in (70000, default max] are exercised only in 1 of 8 default-max cases to keep allocations small",
			"Encode->Decode identity is checked for frames built with SetPayload (payload-less pooled frames belong to C16)",
		},
		Builds:      func(string) []string { return []string{"checkptr"} },
		NumCases:    func(tier, build string) int { return vf.Tiered(tier, 100000, 8000000) },
		Floor:       func(tier string) int { return vf.Tiered(tier, 1000, 20000) },
		CaseTimeout: 30 * time.Second,
		Run:         runC07,
	})
}
