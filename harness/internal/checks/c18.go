package checks

import (
	"bufio"
	"bytes"
	"crypto/sha1"
	"encoding/base64"
	"errors"
	"fmt"
	"net"
	"net/http"
	"strings"
	"sync"
	"time"

	"github.com/talostrading/sonic"
	"github.com/talostrading/sonic/codec/websocket"

	"verif/internal/vf"
	"verif/internal/wsref"
)

// C18 - opening handshake: sound acceptance, robust parsing, no lost bytes.
//
// The harness is the server (raw TCP): it knows what it sent. The acceptance predicate is computed by
// the harness with its own SHA-1/base64 code path; piggy-backed frames are produced by wsref.

type c18Resp struct {
	status      string
	upgrade     string // "" = header absent
	connection  string
	accept      string // "ok", "wrong", "missing", "other-key", "case-swapped", "lower", "upper"
	order       []int
	nameCase    int // 0 canonical, 1 lower, 2 upper
	sep         int // 0 ": ", 1 ":", 2 ":   ", 3 ": value  "
	extra       int
	extraVals   []string // values of the extra headers, fixed by the script so that every build of the head has the same length
	piggy       []wsMsg  // frames in the same byte string as the response
	body        []byte   // bytes behind the head of a response that must be rejected (an HTTP body, or frames sent too early)
	later       []wsMsg  // frames sent a little later
	cuts        []int    // segmentation of response+piggy
	closeAfter  int      // close the connection after this many bytes (-1: never)
	expectOK    bool
	noEnd       bool // the head never ends: no blank line (and more than 64 KiB of header lines)
	description string
}

var c18SeenKeys sync.Map

func c18Accept(key string) string {
	h := sha1.Sum([]byte(key + "258EAFA5-E914-47DA-95CA-C5AB0DC85B11"))
	return base64.StdEncoding.EncodeToString(h[:])
}

func c18Build(key string, rs *c18Resp) []byte {
	var hdrs [][2]string
	if rs.upgrade != "" {
		hdrs = append(hdrs, [2]string{"Upgrade", rs.upgrade})
	}
	if rs.connection != "" {
		hdrs = append(hdrs, [2]string{"Connection", rs.connection})
	}
	switch rs.accept {
	case "ok":
		hdrs = append(hdrs, [2]string{"Sec-WebSocket-Accept", c18Accept(key)})
	case "wrong":
		hdrs = append(hdrs, [2]string{"Sec-WebSocket-Accept", c18Accept(key + "x")})
	case "noncanonical-base64":
		// 20 digest bytes encode to 27 symbols + '=': the low two bits of the 27th symbol are padding. Another symbol
		// with the same high four bits decodes (leniently) to the same digest - and is a different, wrong header value.
		const alphabet = "ABCDEFGHIJKLMNOPQRSTUVWXYZabcdefghijklmnopqrstuvwxyz0123456789+/"
		v := []byte(c18Accept(key))
		if len(v) == 28 {
			ix := strings.IndexByte(alphabet, v[26])
			v[26] = alphabet[(ix&^3)|((ix+1)&3)]
		}
		hdrs = append(hdrs, [2]string{"Sec-WebSocket-Accept", string(v)})
	case "case-swapped", "lower", "upper":
		// the right value with its letter case changed: base64 is case sensitive, so this is a wrong value
		v := c18Accept(key)
		var w string
		switch rs.accept {
		case "lower":
			w = strings.ToLower(v)
		case "upper":
			w = strings.ToUpper(v)
		default:
			w = strings.Map(func(ch rune) rune {
				switch {
				case ch >= 'a' && ch <= 'z':
					return ch - 32
				case ch >= 'A' && ch <= 'Z':
					return ch + 32
				}
				return ch
			}, v)
		}
		if w == v {
			w = c18Accept(key + "x")
		}
		hdrs = append(hdrs, [2]string{"Sec-WebSocket-Accept", w})
	case "other-key":
		hdrs = append(hdrs, [2]string{"Sec-WebSocket-Accept", c18Accept("dGhlIHNhbXBsZSBub25jZQ==")})
	}
	for i := 0; i < rs.extra; i++ {
		hdrs = append(hdrs, [2]string{fmt.Sprintf("X-Extra-%d", i), rs.extraVals[i]})
	}
	// order permutation
	for i := len(hdrs) - 1; i > 0; i-- {
		j := int(uint(rs.order[i%len(rs.order)]) % uint(i+1))
		hdrs[i], hdrs[j] = hdrs[j], hdrs[i]
	}
	var b bytes.Buffer
	b.WriteString(rs.status + "\r\n")
	for _, h := range hdrs {
		name := h[0]
		switch rs.nameCase {
		case 1:
			name = strings.ToLower(name)
		case 2:
			name = strings.ToUpper(name)
		}
		switch rs.sep {
		case 0:
			b.WriteString(name + ": " + h[1] + "\r\n")
		case 1:
			b.WriteString(name + ":" + h[1] + "\r\n")
		case 2:
			b.WriteString(name + ":   " + h[1] + "\r\n")
		default:
			b.WriteString(name + ": " + h[1] + "  \r\n")
		}
	}
	if !rs.noEnd {
		b.WriteString("\r\n")
	}
	return b.Bytes()
}

type c18Server struct {
	ln   net.Listener
	port int
}

type c18Result struct {
	request []byte
	key     string
	err     error
	headLen int
	sent    int
	// for responses the client must reject: did the client close its connection (EOF/RST seen within 3 s)?
	checkedClose, clientClosed bool
}

// serve handles exactly one connection according to the script and reports what it saw.
func (sv *c18Server) serve(r *vf.Rand, rs *c18Resp, out chan<- c18Result, release <-chan struct{}) {
	var res c18Result
	defer func() { out <- res }()
	conn, err := sv.ln.Accept()
	if err != nil {
		res.err = err
		return
	}
	defer conn.Close()
	_ = conn.SetDeadline(time.Now().Add(20 * time.Second))
	br := bufio.NewReader(conn)
	var req bytes.Buffer
	for {
		line, err := br.ReadString('\n')
		req.WriteString(line)
		if err != nil {
			res.err = err
			res.request = req.Bytes()
			return
		}
		if line == "\r\n" {
			break
		}
	}
	res.request = req.Bytes()
	if hr, err := http.ReadRequest(bufio.NewReader(bytes.NewReader(res.request))); err == nil {
		res.key = hr.Header.Get("Sec-WebSocket-Key")
	}
	head := c18Build(res.key, rs)
	res.headLen = len(head)
	payload := append([]byte(nil), head...)
	for _, m := range rs.piggy {
		op := byte(wsref.OpBinary)
		if m.Text {
			op = wsref.OpText
		}
		payload = append(payload, wsref.Frame{Fin: true, Opcode: op, Payload: m.Payload}.Encode()...)
	}
	payload = append(payload, rs.body...)
	if rs.closeAfter >= 0 && rs.closeAfter < len(payload) {
		payload = payload[:rs.closeAfter]
	}
	prev := 0
	for _, cut := range append(append([]int(nil), rs.cuts...), len(payload)) {
		if cut > len(payload) {
			cut = len(payload)
		}
		if cut <= prev {
			continue
		}
		if _, err := conn.Write(payload[prev:cut]); err != nil {
			res.err = err
			return
		}
		res.sent = cut
		prev = cut
		if cut < len(payload) {
			time.Sleep(time.Duration(1500+r.Intn(1500)) * time.Microsecond) // let the client park in read()
		}
	}
	if rs.closeAfter >= 0 {
		// the server hangs up (FIN) in the middle of the response and then waits for the client to let go of its end
		if tc, ok := conn.(*net.TCPConn); ok {
			_ = tc.CloseWrite()
			res.checkedClose = true
			_ = conn.SetReadDeadline(time.Now().Add(3 * time.Second))
			one := make([]byte, 1)
			for {
				_, rerr := br.Read(one)
				if rerr == nil {
					continue
				}
				var ne net.Error
				res.clientClosed = !(errors.As(rerr, &ne) && ne.Timeout())
				break
			}
		}
		return
	}
	if !rs.expectOK {
		// a rejected handshake leaves nothing half-open: the client's end of this connection goes away
		res.checkedClose = true
		_ = conn.SetReadDeadline(time.Now().Add(3 * time.Second))
		one := make([]byte, 1)
		for {
			_, rerr := br.Read(one)
			if rerr == nil {
				continue
			}
			var ne net.Error
			res.clientClosed = !(errors.As(rerr, &ne) && ne.Timeout())
			break
		}
	}
	if len(rs.later) > 0 {
		time.Sleep(2 * time.Millisecond)
		for _, m := range rs.later {
			op := byte(wsref.OpBinary)
			if m.Text {
				op = wsref.OpText
			}
			if _, err := conn.Write(wsref.Frame{Fin: true, Opcode: op, Payload: m.Payload}.Encode()); err != nil {
				res.err = err
				return
			}
		}
	}
	<-release // keep the connection open until the client has read what it should
	if tc, ok := conn.(*net.TCPConn); ok {
		_ = tc.SetLinger(0) // RST: no TIME_WAIT on either end (thorough runs open > 100k connections)
	}
}

func c18Script(r *vf.Rand) *c18Resp {
	rs := &c18Resp{status: "HTTP/1.1 101 Switching Protocols", upgrade: "websocket", connection: "Upgrade", accept: "ok", closeAfter: -1}
	rs.nameCase = r.Intn(3)
	rs.sep = r.Intn(4)
	rs.extra = r.Intn(4)
	for i := 0; i < rs.extra; i++ {
		rs.extraVals = append(rs.extraVals, string(asciiBytes(r, r.Range(1, 30))))
	}
	for i := 0; i < 8; i++ {
		rs.order = append(rs.order, r.Intn(1000))
	}
	rs.upgrade = []string{"websocket", "WebSocket", "WEBSOCKET"}[r.Intn(3)]
	desc := "conforming"
	switch r.Intn(14) {
	case 0:
		rs.status = "HTTP/1.1 200 OK"
		desc = "status-200"
	case 1:
		rs.status = "HTTP/1.1 400 Bad Request"
		desc = "status-400"
	case 2:
		rs.status = "HTTP/1.1 101 Sure Why Not"
		desc = "status-101-other-text"
	case 3:
		rs.upgrade = ""
		desc = "no-upgrade-header"
	case 4:
		rs.upgrade = "h2c"
		desc = "upgrade-other-protocol"
	case 5:
		rs.accept = "wrong"
		desc = "wrong-accept"
	case 6:
		rs.accept = "missing"
		desc = "missing-accept"
	case 7:
		rs.accept = "other-key"
		desc = "accept-of-another-key"
	case 8:
		rs.connection = ""
		desc = "conforming-without-connection-header"
	case 9:
		rs.accept = []string{"case-swapped", "lower", "upper"}[r.Intn(3)]
		desc = "accept-with-letter-case-changed"
		if r.Chance(1, 3) {
			rs.accept = "noncanonical-base64"
			desc = "accept-with-padding-bits-changed"
		}
	case 10:
		if r.Chance(1, 3) {
			// a head that never ends: more than 64 KiB of header lines and no blank line. The handshake must fail (not
			// buffer for ever), and the stream must be as good as new afterwards.
			rs.noEnd = true
			rs.extra = 2
			// (the client's bound is on what it has buffered, which grows in steps: the head is made long enough that every
			// growth policy has passed 64 KiB long before the server runs out of bytes and falls silent)
			rs.extraVals = []string{string(asciiBytes(r, r.Range(80000, 100000))), string(asciiBytes(r, r.Range(70000, 90000)))}
			rs.accept = "wrong"
			desc = "head-far-over-64KiB-without-end"
		}
	}
	if !rs.noEnd && r.Chance(1, 10) {
		// a conforming but large head (cookies, tracing headers): 8-40 KiB
		if rs.extra == 0 {
			rs.extra = 1
			rs.extraVals = []string{""}
		}
		rs.extraVals[0] = string(asciiBytes(r, r.Range(8000, 40000)))
		desc += "+large-head"
	}
	rs.expectOK = strings.HasPrefix(rs.status, "HTTP/1.1 101") && strings.EqualFold(rs.upgrade, "websocket") && rs.accept == "ok"
	if rs.expectOK {
		for i := 0; i < r.Intn(4); i++ {
			pl := asciiBytes(r, []int{0, 1, 5, 125, 126, 300}[r.Intn(6)])
			if r.Chance(1, 4) {
				// application data that itself ends in a blank line (an embedded HTTP- or SIP-like message): the bytes
				// received with the response head then end in CR LF CR LF a second time
				pl = append(pl, "\r\n\r\n"...)
			}
			rs.piggy = append(rs.piggy, wsMsg{Text: r.Bool(), Payload: pl})
		}
		if r.Chance(1, 8) {
			// a server that starts talking at once: kilobytes of frames right behind the response head
			for i := 0; i < r.Range(6, 14); i++ {
				rs.piggy = append(rs.piggy, wsMsg{Text: r.Bool(), Payload: asciiBytes(r, r.Range(700, 1100))})
			}
		}
		for i := 0; i < r.Intn(3); i++ {
			rs.later = append(rs.later, wsMsg{Text: r.Bool(), Payload: asciiBytes(r, r.Intn(200))})
		}
	}
	if !rs.expectOK && r.Chance(1, 2) {
		// a refusal with something behind its head: an HTTP body, or frames of a server that did not wait
		if r.Bool() {
			rs.body = asciiBytes(r, r.Range(1, 300))
		} else {
			for i := 0; i < r.Range(1, 3); i++ {
				rs.body = append(rs.body, wsref.Frame{Fin: true, Opcode: wsref.OpText, Payload: asciiBytes(r, r.Range(0, 60))}.Encode()...)
			}
		}
		desc += "+body"
	}
	rs.description = desc
	return rs
}

func runC18(c *vf.Case) {
	r := c.Rng
	ln, err := net.Listen("tcp", "127.0.0.1:0")
	if err != nil {
		c.Failf("harness-setup", "listen: %v", err)
		return
	}
	defer ln.Close()
	sv := &c18Server{ln: ln, port: ln.Addr().(*net.TCPAddr).Port}
	ioc := sonic.MustIO()
	defer ioc.Close()
	s, err := websocket.NewWebsocketStream(ioc, nil, websocket.RoleClient)
	if err != nil {
		c.Failf("harness-setup", "NewWebsocketStream: %v", err)
		return
	}
	nh := r.Range(1, 4)
	shape := ""
	leftWriteInFlight := false
	var sv2 *c18Server
	for h := 0; h < nh && !c.Failed(); h++ {
		rs := c18Script(r)
		async := r.Bool()
		// dry run of the builder to know the length for cut / close offsets
		probe := c18Build("AAAAAAAAAAAAAAAAAAAAAA==", rs)
		total := len(probe)
		for _, m := range rs.piggy {
			total += len(wsref.Frame{Fin: true, Opcode: 1, Payload: m.Payload}.Encode())
		}
		total += len(rs.body)
		if len(rs.body) > 0 {
			c.Count("refusals_with_bytes_behind_the_head", 1)
		}
		segClass := "whole"
		switch r.Intn(6) {
		case 5:
			rs.cuts = []int{len(probe) - r.Range(1, 3)} // inside the CRLF CRLF that ends the response head
			segClass = "cut-inside-blank-line"
		case 0, 1:
			rs.cuts = []int{r.Intn(total)}
			segClass = "one-cut"
		case 2:
			rs.cuts = []int{r.Intn(total), r.Intn(total)}
			sortInts(rs.cuts)
			segClass = "two-cuts"
		case 3:
			rs.cuts = []int{len(probe)} // exactly between the response and the piggy-backed frames
			segClass = "cut-at-blank-line"
		}
		if r.Chance(1, 8) {
			rs.closeAfter = r.Intn(len(probe)) // server closes in the middle of the response
			rs.expectOK = false
			rs.description += "+closes-after-" + fmt.Sprint(rs.closeAfter)
			rs.piggy, rs.later = nil, nil
		}
		extraName := fmt.Sprintf("X-Client-%d", r.Intn(1000))
		extraVal := string(asciiBytes(r, 8))
		c.Logf("handshake %d: async=%v response=%s case=%d sep=%d extra=%d cuts=%v piggy=%d later=%d expect-accept=%v", h, async, rs.description, rs.nameCase, rs.sep, rs.extra, rs.cuts, len(rs.piggy), len(rs.later), rs.expectOK)
		chained := false
		out := make(chan c18Result, 1)
		release := make(chan struct{})
		go sv.serve(vf.NewRand(r.U64()), rs, out, release)
		url := fmt.Sprintf("ws://127.0.0.1:%d/path%d?q=%d", sv.port, h, r.Intn(100))
		var herr error
		if async {
			done := false
			// the usual reconnect idiom: the failure callback starts the next handshake on the same stream at once
			chain := !rs.expectOK && rs.closeAfter < 0 && r.Bool()
			var out2 chan c18Result
			var release2 chan struct{}
			var herr2 error
			done2 := false
			url2 := ""
			if chain {
				if sv2 == nil {
					ln2, lerr := net.Listen("tcp", "127.0.0.1:0")
					if lerr != nil {
						c.Failf("harness-setup", "listen: %v", lerr)
						return
					}
					defer ln2.Close()
					sv2 = &c18Server{ln: ln2, port: ln2.Addr().(*net.TCPAddr).Port}
				}
				rs2 := &c18Resp{status: "HTTP/1.1 101 Switching Protocols", upgrade: "websocket", connection: "Upgrade", accept: "ok", closeAfter: -1, expectOK: true, order: []int{0}, description: "conforming"}
				out2, release2 = make(chan c18Result, 1), make(chan struct{})
				go sv2.serve(vf.NewRand(r.U64()), rs2, out2, release2)
				url2 = fmt.Sprintf("ws://127.0.0.1:%d/again", sv2.port)
			}
			s.AsyncHandshake(url, func(e error) {
				herr = e
				done = true
				if chain && e != nil {
					s.AsyncHandshake(url2, func(e2 error) { herr2 = e2; done2 = true })
				}
			}, websocket.ExtraHeader(true, extraName, extraVal))
			c.Bounded("asynchandshake-callback-never-invoked", 40*time.Second, func() {
				for !done || (chain && herr != nil && !done2) {
					_ = ioc.RunOneFor(5 * time.Millisecond)
				}
			})
			if chain {
				c.Logf("  (the failure callback started the next handshake at once: err=%v state=%v)", herr2, s.State())
				if herr != nil {
					if herr2 != nil || s.State() != websocket.StateActive {
						c.Failf("rehandshake-from-failure-callback-failed", "handshake %d failed as it must (%v); the handshake started from its callback against a conforming server returned %v, State()=%v", h, herr, herr2, s.State())
					}
					c.Count("handshakes_started_from_a_failure_callback", 1)
				}
				close(release2)
				if herr != nil {
					<-out2
				}
				chained = herr != nil
			}
		} else {
			c.Bounded("handshake-never-returns", 40*time.Second, func() {
				herr = s.Handshake(url, websocket.ExtraHeader(true, extraName, extraVal))
			})
		}
		accepted := herr == nil
		c.Logf("  -> err=%v state=%v", herr, s.State())
		if chained {
			// the stream is now active on the second connection: close that session before the verdicts on the first
			_ = s.CloseNextLayer()
		}
		c.Cover("response_class", rs.description[:min(len(rs.description), 40)]+"/"+segClass)
		if accepted != rs.expectOK {
			key := "accepted-a-response-that-must-be-rejected/" + rs.description
			if rs.expectOK {
				key = "rejected-a-conforming-response/sent-whole"
				if len(rs.cuts) > 0 {
					key = "rejected-a-conforming-response/sent-in-segments"
				}
			}
			if rs.closeAfter >= 0 {
				key = "accepted-a-truncated-response"
			}
			c.Failf(key, "handshake %d (%s, header-name case %d, separator style %d, segmentation %s %v): returned err=%v, the acceptance predicate (status 101, Upgrade: websocket, Accept = base64(sha1(key+GUID))) says accept=%v", h, rs.description, rs.nameCase, rs.sep, segClass, rs.cuts, herr, rs.expectOK)
		}
		if !accepted && !chained && s.State() != websocket.StateTerminated {
			c.Failf("failed-handshake-not-terminated", "handshake %d failed with %v but State()=%v", h, herr, s.State())
		}
		if accepted && s.State() != websocket.StateActive {
			c.Failf("successful-handshake-not-active", "handshake %d succeeded but State()=%v", h, s.State())
		}
		// messages after the blank line
		if accepted && rs.expectOK && !c.Failed() {
			want := append(append([]wsMsg(nil), rs.piggy...), rs.later...)
			buf := make([]byte, 4096)
			for i, m := range want {
				var mt websocket.MessageType
				var n int
				var rerr error
				if async {
					done := false
					s.AsyncNextMessage(buf, func(e error, nn int, t websocket.MessageType) { rerr, n, mt, done = e, nn, t, true })
					c.Bounded("bytes-after-handshake-lost", 40*time.Second, func() {
						for !done {
							_ = ioc.RunOneFor(5 * time.Millisecond)
						}
					})
				} else {
					c.Bounded("bytes-after-handshake-lost", 40*time.Second, func() { mt, n, rerr = s.NextMessage(buf) })
				}
				wantT := websocket.TypeBinary
				if m.Text {
					wantT = websocket.TypeText
				}
				if rerr != nil || mt != wantT || !bytes.Equal(buf[:n], m.Payload) {
					where := "piggy-backed"
					if i >= len(rs.piggy) {
						where = "later"
					}
					c.Failf("message-after-handshake-differs/"+where, "handshake %d (separator style %d, case %d, segmentation %s %v): %s message %d read as err=%v type=%v len=%d, sent type=%v len=%d (bytes after the blank line lost, duplicated or shifted)", h, rs.sep, rs.nameCase, segClass, rs.cuts, where, i, rerr, mt, n, wantT, len(m.Payload))
					break
				}
				c.Count("messages_after_handshake_verified", 1)
			}
			c.Count("piggybacked_frames", len(rs.piggy))
			// the write side of a re-used stream behaves like a fresh one too: a small asynchronous write completes,
			// also when the previous session was torn down with a write still in flight
			if !c.Failed() && (leftWriteInFlight || r.Bool()) {
				wcalls := 0
				var werr error
				s.AsyncWrite([]byte("probe"), websocket.TypeText, func(e error) { wcalls++; werr = e })
				for it := 0; it < 4000 && wcalls == 0; it++ {
					_ = ioc.RunOneFor(time.Millisecond)
				}
				if wcalls != 1 || werr != nil {
					c.Failf("write-after-handshake-does-not-complete", "handshake %d (previous session ended with a write in flight: %v): AsyncWrite of 5 bytes on the active stream: callback invoked %d times, err=%v, after 4000 loop iterations", h, leftWriteInFlight, wcalls, werr)
				}
				c.Count("write_probes_after_handshake", 1)
				if leftWriteInFlight {
					c.Count("write_probes_after_a_teardown_with_a_write_in_flight", 1)
				}
			}
			leftWriteInFlight = false
			if !c.Failed() && r.Chance(1, 3) {
				// tear the session down with an asynchronous write started and its completion not yet delivered
				s.AsyncWrite(asciiBytes(r, r.Range(1, 200)), websocket.TypeText, func(error) {})
				leftWriteInFlight = true
			}
		}
		close(release)
		res := <-out
		if res.checkedClose && !res.clientClosed {
			c.Failf("failed-handshake-left-connection-open", "handshake %d (%s, async=%v, next handshake started from the failure callback: %v): the client rejected the response but the server saw neither EOF nor a reset on that connection within 3 s", h, rs.description, async, chained)
		}
		if res.checkedClose {
			c.Count("rejected_handshakes_whose_connection_was_seen_closed", 1)
		}
		// the request as the server saw it
		if len(res.request) > 0 {
			c18CheckRequest(c, res, sv.port, extraName, extraVal, h)
		} else if res.err != nil && rs.closeAfter < 0 {
			c.Failf("harness-server-error", "server: %v", res.err)
		}
		_ = s.CloseNextLayer()
		shape += fmt.Sprintf("%s/%s/%v;", rs.description, segClass, async)
		c.Count("handshakes", 1)
		if rs.expectOK {
			c.Count("handshakes_accepted", 1)
		} else {
			c.Count("handshakes_rejected", 1)
		}
		if len(rs.cuts) > 0 {
			c.Count("responses_sent_in_segments", 1)
		}
	}
	if nh > 1 {
		c.Count("re_handshakes", nh-1)
	}
	c.NonTrivial(shape)
}

func c18CheckRequest(c *vf.Case, res c18Result, port int, extraName, extraVal string, h int) {
	hr, err := http.ReadRequest(bufio.NewReader(bytes.NewReader(res.request)))
	if err != nil {
		c.Failf("request-unparsable", "handshake %d: the upgrade request does not parse: %v", h, err)
		return
	}
	bad := func(what string) {
		c.Failf("request-malformed/"+what, "handshake %d: upgrade request: %s\n%s", h, what, res.request)
	}
	if hr.Method != "GET" {
		bad("method-not-GET")
	}
	if hr.Host != fmt.Sprintf("127.0.0.1:%d", port) {
		bad("host-header")
	}
	if !strings.EqualFold(hr.Header.Get("Upgrade"), "websocket") {
		bad("upgrade-header")
	}
	if !strings.EqualFold(hr.Header.Get("Connection"), "upgrade") {
		bad("connection-header")
	}
	if hr.Header.Get("Sec-WebSocket-Version") != "13" {
		bad("version-header")
	}
	key := hr.Header.Get("Sec-WebSocket-Key")
	if raw, err := base64.StdEncoding.DecodeString(key); err != nil || len(raw) != 16 {
		bad("key-not-base64-of-16-bytes")
	}
	if _, dup := c18SeenKeys.LoadOrStore(key, true); dup {
		bad("key-repeated-across-handshakes")
	}
	if hr.Header.Get(extraName) != extraVal {
		bad("caller-supplied-header-missing")
	}
	for name := range hr.Header {
		// every handshake of a case passes its own X-Client-<n> header: one that belongs to an earlier handshake (of this
		// or any other stream of the process) has no business in this request
		if strings.HasPrefix(strings.ToLower(name), "x-client-") && !strings.EqualFold(name, extraName) {
			bad("header-of-an-earlier-handshake-sent-again")
		}
	}
	c.Count("requests_validated", 1)
}

func init() {
	register(&vf.Check{
		ID:        "C18",
		Technique: "runtime monitor with the harness as a raw TCP server: request validation, acceptance predicate computed independently (own SHA-1/base64 path), scripted responses (status, header set/order/case/whitespace, wrong accept, truncation, segmentation) and piggy-backed wsref frames compared with what the client reads; bounded-progress probes for lost bytes",
		Rule: "piggy-backed payloads may end in CR LF CR LF; a tenth of the heads carry 8-40 KiB of extra header; one response class is a head far over 64 KiB that never ends; one accepted handshake in eight is followed by 6-14 frames of about 1 KB in the same bytes; a server that stops in mid-response half-closes and waits for the client's end; " +
			"cases = 1-4 consecutive handshakes on one Stream (blocking and asynchronous), each against a scripted response: status {101, 101 with other text, 200, 400}, Upgrade {websocket in 3 spellings, other, absent}, Connection present/absent, Accept {correct, wrong, of another key, missing, correct with its letter case changed, correct with the base64 padding bits changed}, 0-3 extra headers, header order permuted, header-name case {canonical, lower, upper}, separator {': ', ':', ':   ', trailing blanks}, response+frames sent whole / cut at 1-2 random offsets / cut exactly at the blank line / cut inside the CRLF CRLF, server closing after k bytes, every other refusal followed by an HTTP body or by frames in the same bytes, 0-3 frames piggy-backed and 0-2 sent later; after an accepted handshake optionally a small AsyncWrite that must complete, and one session in three is torn down with an asynchronous write still in flight; " +
			"every case is non-trivial; distinct = sequence of (response class, segmentation, API)",
		Assumptions: []string{
			"acceptance = status 101 AND Upgrade: websocket (case-insensitive) AND Sec-WebSocket-Accept = base64(sha1(key+GUID)), exactly as the statement lists; the Connection response header is not part of it",
			"segmentation on a real socket = write, sleep 1.5-3 ms so the client parks in read(2), write; a coalesced delivery is a weaker case, not a failure",
			"a lost byte after the handshake makes the next read wait forever: decided by a 40 s bound",
			"TLS (wss) is not driven",
		},
		Builds: func(tier string) []string {
			if tier == "thorough" {
				return []string{"plain", "race"}
			}
			return []string{"plain"}
		},
		NumCases: func(tier, build string) int {
			if build == "race" {
				return 3000
			}
			return vf.Tiered(tier, 800, 60000)
		},
		Shards: func(tier, build string) int { return 16 },
		Floor:  func(tier string) int { return vf.Tiered(tier, 50, 500) },
		Run:    runC18,
	})
}
