package checks

import (
	"sync"

	"github.com/talostrading/sonic"
	"github.com/talostrading/sonic/codec/websocket"

	"verif/internal/vf"
	"verif/internal/wsref"
	"verif/internal/xport"
)

// Shared helpers for the in-memory WebSocket monitors (C06, C08, C15, C16, C17): a real
// websocket.Stream attached (hook VerifAttach, build tag verif) to a scripted transport.

var (
	sharedIOOnce sync.Once
	sharedIO     *sonic.IO
)

func theIO() *sonic.IO {
	sharedIOOnce.Do(func() { sharedIO = sonic.MustIO() })
	return sharedIO
}

func newWS(c *vf.Case) (*websocket.Stream, *xport.Transport) {
	s, err := websocket.NewWebsocketStream(theIO(), nil, websocket.RoleClient)
	if err != nil {
		c.Failf("stream-constructor", "NewWebsocketStream: %v", err)
		return nil, nil
	}
	if c.Rng.Chance(1, 4) {
		// The stream under test has been used before: its previous session ended in the middle of a fragmented message,
		// in the middle of a frame, with an asynchronous write still held by the transport, and by transport EOF. A stream
		// that is set up again must behave like a fresh one (reset() is what a new handshake runs).
		t0 := xport.New()
		if err := s.VerifAttach(t0); err == nil {
			frag := wsref.Frame{Fin: false, Opcode: wsref.OpText, Payload: []byte("left over from the previous session")}.Encode()
			half := wsref.Frame{Fin: true, Opcode: wsref.OpCont, Payload: make([]byte, 50)}.Encode()[:20]
			t0.Feed(append(frag, half...))
			_, _, _ = s.NextMessage(make([]byte, 256))
			t0.HoldWrites = true
			s.AsyncWrite([]byte("never completed"), websocket.TypeText, func(error) {})
			if c.Rng.Bool() {
				t0.SetEnd(xport.EndEOF)
				_, _ = s.NextFrame()
			} else {
				// ... or by the owner walking away after a blocking write that stopped part-way through a frame (the
				// transport would block): the rest of that frame is still in the write buffer when the stream is set up again
				t0.WriteBlockAt = len(t0.Written) + 3
				_ = s.Write([]byte("interrupted part-way by would-block"), websocket.TypeBinary)
			}
			c.Count("streams_reused_after_a_dirty_session", 1)
		}
	}
	t := xport.New()
	if err := s.VerifAttach(t); err != nil {
		c.Failf("verif-attach", "VerifAttach: %v", err)
		return nil, nil
	}
	return s, t
}

// wsMsg is one application message the peer sends.
type wsMsg struct {
	Text    bool
	Payload []byte
}

// wsEvent is one wire frame with what it means to the reader.
type wsEvent struct {
	F       wsref.Frame
	MsgIdx  int  // index of the message this data frame belongs to (-1 for control frames)
	Last    bool // last fragment of its message
	Control bool
}

// fragment splits the messages into frames, with control frames placed between fragments.
func wsFragment(r *vf.Rand, msgs []wsMsg, maxFrags int, controlChance int) (events []wsEvent, ctrlBetween int) {
	ctrl := func() wsEvent {
		op := byte(wsref.OpPing)
		if r.Bool() {
			op = wsref.OpPong
		}
		n := []int{0, 1, 5, 125}[r.Intn(4)]
		if r.Bool() {
			n = r.Intn(126)
		}
		return wsEvent{F: wsref.Frame{Fin: true, Opcode: op, Payload: r.Bytes(n)}, MsgIdx: -1, Control: true}
	}
	for i, m := range msgs {
		nf := 1
		if maxFrags > 1 && r.Chance(2, 3) {
			nf = r.Range(1, maxFrags)
		}
		// cut points (may coincide -> empty fragments)
		cuts := make([]int, 0, nf+1)
		cuts = append(cuts, 0)
		for k := 1; k < nf; k++ {
			cuts = append(cuts, r.Intn(len(m.Payload)+1))
		}
		cuts = append(cuts, len(m.Payload))
		sortInts(cuts)
		for k := 0; k < nf; k++ {
			op := byte(wsref.OpCont)
			if k == 0 {
				op = wsref.OpBinary
				if m.Text {
					op = wsref.OpText
				}
			}
			f := wsref.Frame{Fin: k == nf-1, Opcode: op, Payload: m.Payload[cuts[k]:cuts[k+1]]}
			events = append(events, wsEvent{F: f, MsgIdx: i, Last: k == nf-1})
			if k < nf-1 && r.Chance(controlChance, 100) {
				events = append(events, ctrl())
				ctrlBetween++
			}
		}
		if r.Chance(controlChance, 200) {
			events = append(events, ctrl())
		}
	}
	return
}

func wsWire(events []wsEvent) (wire []byte, bounds []int) {
	for _, e := range events {
		wire = append(wire, e.F.Encode()...)
		bounds = append(bounds, len(wire))
	}
	return
}

// cutClass tells where a cut offset falls inside the frame sequence.
func cutClass(events []wsEvent, bounds []int, cut int) string {
	start := 0
	for i, end := range bounds {
		if cut < end {
			off := cut - start
			hdr := len(events[i].F.Encode()) - len(events[i].F.Payload)
			switch {
			case off == 0:
				return "frame-boundary"
			case off == 1:
				return "in-first-header-byte"
			case off < hdr:
				return "in-extended-length"
			default:
				return "in-payload"
			}
		}
		start = end
	}
	return "end"
}

func asciiBytes(r *vf.Rand, n int) []byte {
	b := r.Bytes(n)
	for i := range b {
		b[i] = 'a' + b[i]%26
	}
	return b
}
