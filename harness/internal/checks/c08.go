package checks

import (
	"bytes"
	"errors"
	"fmt"
	"io"
	"strings"
	"time"
	"unicode/utf8"

	"github.com/talostrading/sonic/codec/websocket"
	"github.com/talostrading/sonic/sonicerrors"

	"verif/internal/vf"
	"verif/internal/wsref"
	"verif/internal/xport"
)

// C08 - ping/pong and the closing handshake follow the RFC 6455 state machine.
//
// An executable reference model of the client (state + the total order of frames it owes the wire) runs in
// lock-step with the real Stream (online trace checker). After every step the bytes written to the
// transport are parsed by wsref and compared with the model, together with State(), Pending() and the
// outcome of the call.

type c08State int

const (
	mActive c08State = iota
	mClosedByUs
	mClosedByPeer
	mCloseAcked
	mTerminated
)

func (s c08State) String() string {
	return [...]string{"active", "closed-by-us", "closed-by-peer", "close-acked", "terminated"}[s]
}

func c08ImplState(s websocket.StreamState) string {
	switch s {
	case websocket.StateActive:
		return "active"
	case websocket.StateClosedByUs:
		return "closed-by-us"
	case websocket.StateClosedByPeer:
		return "closed-by-peer"
	case websocket.StateCloseAcked:
		return "close-acked"
	case websocket.StateTerminated:
		return "terminated"
	case websocket.StateHandshake:
		return "handshake"
	}
	return "unknown"
}

type c08Owed struct {
	op      byte
	payload []byte // for Close: only the first two bytes (the code) are compared
	what    string
}

type c08Model struct {
	state       c08State
	all         []c08Owed // total order of frames the client must put on the wire
	mustFlushed int       // how many of them must be on the wire by now
	optPongs    [][]byte  // pings received after our Close: a Pong is neither required nor forbidden
	eofRefused  bool      // a read was refused with end-of-stream on a terminal state (State() may say terminated)
}

func (m *c08Model) flush() { m.mustFlushed = len(m.all) }
func (m *c08Model) canRead() bool {
	return m.state == mActive || m.state == mClosedByUs
}

// peer events
const (
	evText = iota
	evFragmented
	evPing
	evPong
	evPingText
	evCloseValid
	evCloseEmpty
	evCloseOneByte
	evCloseBadCode
	evCloseBadUTF8
	evViolation
	evEOF
	evTransportError
	lcWrite
	lcAsyncWrite
	lcWriteFramePing
	lcFlush
	lcAsyncFlush
	lcClose
	lcAsyncClose
	c08Alphabet
)

var c08Names = [...]string{"peer:text", "peer:fragmented", "peer:ping", "peer:pong", "peer:ping+text", "peer:close-valid",
	"peer:close-empty", "peer:close-1byte", "peer:close-badcode", "peer:close-badutf8", "peer:violation", "transport:EOF",
	"transport:error", "Write", "AsyncWrite", "WriteFrame(ping)", "Flush", "AsyncFlush", "Close", "AsyncClose"}

type c08Frame struct {
	f    wsref.Frame
	kind int // 0 data(final), 1 data(non-final), 2 ping, 3 pong, 4 close, 5 violation
}

type c08Run struct {
	c     *vf.Case
	r     *vf.Rand
	s     *websocket.Stream
	t     *xport.Transport
	m     *c08Model
	ctl   []c06Ctl // control callback invocations of the current call
	dead  bool     // stop comparing (transport error injected)
	pairs map[string]bool
}

func (x *c08Run) fail(key, format string, args ...any) {
	x.c.Failf(key, format, args...)
}

// modelReadFrame is the reference semantics of reading one frame; fr == nil means nothing available.
// It returns the expected outcome class: "frame", "eof", "error", "wouldblock".
func (x *c08Run) modelReadFrame(fr *c08Frame, end xport.End) string {
	m := x.m
	m.flush()
	if !m.canRead() {
		m.eofRefused = true
		return "eof"
	}
	if fr == nil {
		switch end {
		case xport.EndEOF:
			m.state = mTerminated
			return "eof1006"
		case xport.EndError:
			return "error"
		}
		return "wouldblock"
	}
	switch fr.kind {
	case 0, 1:
		return "frame"
	case 2:
		if m.state == mActive {
			m.all = append(m.all, c08Owed{wsref.OpPong, fr.f.Payload, "pong"})
		} else {
			m.optPongs = append(m.optPongs, fr.f.Payload)
		}
		return "frame"
	case 3:
		return "frame"
	case 4:
		switch m.state {
		case mActive:
			m.state = mClosedByPeer
			code := uint16(1000)
			p := fr.f.Payload
			switch {
			case len(p) == 0:
			case len(p) == 1:
				code = 1002
			default:
				code = uint16(p[0])<<8 | uint16(p[1])
				if !c08ValidCode(code) || !validUTF8(p[2:]) {
					code = 1002
				}
			}
			m.all = append(m.all, c08Owed{wsref.OpClose, []byte{byte(code >> 8), byte(code)}, fmt.Sprintf("close reply %d", code)})
		case mClosedByUs:
			m.state = mCloseAcked
		}
		return "frame"
	default: // violation
		if m.state == mActive {
			m.state = mClosedByUs
			m.all = append(m.all, c08Owed{wsref.OpClose, []byte{0x03, 0xea}, "close 1002 after violation"})
		}
		return "error"
	}
}

func c08ValidCode(c uint16) bool {
	switch {
	case c >= 1000 && c <= 1003, c >= 1007 && c <= 1013, c >= 3000 && c <= 4999:
		return true
	}
	return false
}

func validUTF8(b []byte) bool { return utf8.Valid(b) }

// verify compares the observable state with the model after a step.
func (x *c08Run) verify(step string) {
	if x.dead || x.c.Failed() {
		return
	}
	m := x.m
	frames, rest, st := wsref.ParseAll(x.t.Written, -1)
	if st != wsref.OK || len(rest) != 0 {
		x.fail("wire-does-not-parse", "after %s: transport bytes do not parse into whole frames", step)
		return
	}
	closes, sawClose := 0, false
	for _, f := range frames {
		if f.Opcode == wsref.OpClose {
			closes++
			sawClose = true
		} else if sawClose && f.Opcode <= wsref.OpBinary {
			x.fail("data-frame-after-close-frame", "after %s: a data frame (op=%d) follows the client's Close frame on the wire", step, f.Opcode)
			return
		}
		if !f.Masked {
			x.fail("unmasked-frame", "after %s: client frame op=%d is not masked", step, f.Opcode)
			return
		}
	}
	if closes > 1 {
		x.fail("more-than-one-close-frame-on-wire", "after %s: %d Close frames on the wire (model state %v)", step, closes, m.state)
		return
	}
	// wire must be a prefix of the owed order (optional pongs tolerated)
	wi := 0
	opt := append([][]byte(nil), m.optPongs...)
	for _, f := range frames {
		if wi < len(m.all) {
			e := m.all[wi]
			match := f.Opcode == e.op
			if match {
				if e.op == wsref.OpClose {
					match = len(f.Payload) >= 2 && bytes.Equal(f.Payload[:2], e.payload[:2])
				} else {
					match = bytes.Equal(f.Payload, e.payload)
				}
			}
			if match {
				wi++
				continue
			}
		}
		if f.Opcode == wsref.OpPong && len(opt) > 0 && bytes.Equal(opt[0], f.Payload) {
			opt = opt[1:]
			continue
		}
		want := "nothing more"
		if wi < len(m.all) {
			want = fmt.Sprintf("%s (op=%d payload=%x)", m.all[wi].what, m.all[wi].op, m.all[wi].payload)
		}
		key := "unexpected-frame-on-wire"
		if f.Opcode == wsref.OpClose {
			key = "unexpected-close-frame-on-wire"
			if wi < len(m.all) && m.all[wi].op == wsref.OpClose {
				key = "close-code-differs"
			}
		} else if f.Opcode == wsref.OpPong {
			key = "unexpected-or-wrong-pong"
		}
		x.fail(key, "after %s: wire frame op=%d payload=%x where the model expects %s (model state %v)", step, f.Opcode, f.Payload, want, m.state)
		return
	}
	if wi < m.mustFlushed {
		e := m.all[wi]
		key := "owed-frame-not-on-wire"
		if e.op == wsref.OpPong {
			key = "pong-not-sent"
		} else if e.op == wsref.OpClose {
			key = "close-not-sent"
		}
		x.fail(key, "after %s: %s should have been written by now (%d of %d owed frames on the wire, model state %v)", step, e.what, wi, m.mustFlushed, m.state)
		return
	}
	if len(m.optPongs) == 0 {
		if got, want := x.s.Pending(), len(m.all)-wi; got != want {
			x.fail("pending-count", "after %s: Pending()=%d, model has %d frames queued and not yet written", step, got, want)
			return
		}
	}
	got := c08ImplState(x.s.State())
	want := m.state.String()
	if got != want && !(m.eofRefused && got == "terminated" && (m.state == mClosedByPeer || m.state == mCloseAcked)) {
		x.fail("state-differs/"+want, "after %s: State()=%s, model says %s", step, got, want)
		return
	}
	x.pairs[want+" x "+strings.SplitN(step, " ", 2)[0]] = true
}

func (x *c08Run) mkFrames(ev int) []c08Frame {
	r := x.r
	small := func() []byte { return asciiBytes(r, r.Intn(20)) }
	switch ev {
	case evText:
		return []c08Frame{{wsref.Frame{Fin: true, Opcode: wsref.OpText, Payload: small()}, 0}}
	case evFragmented:
		return []c08Frame{{wsref.Frame{Fin: false, Opcode: wsref.OpBinary, Payload: small()}, 1}, {wsref.Frame{Fin: true, Opcode: wsref.OpCont, Payload: small()}, 0}}
	case evPing:
		return []c08Frame{{wsref.Frame{Fin: true, Opcode: wsref.OpPing, Payload: r.Bytes(r.Intn(126))}, 2}}
	case evPong:
		return []c08Frame{{wsref.Frame{Fin: true, Opcode: wsref.OpPong, Payload: r.Bytes(r.Intn(126))}, 3}}
	case evPingText:
		return []c08Frame{{wsref.Frame{Fin: true, Opcode: wsref.OpPing, Payload: r.Bytes(r.Intn(126))}, 2}, {wsref.Frame{Fin: true, Opcode: wsref.OpText, Payload: small()}, 0}}
	case evCloseValid:
		codes := []uint16{1000, 1001, 1002, 1003, 1007, 1008, 1009, 1010, 1011, 3000, 4999}
		return []c08Frame{{wsref.Frame{Fin: true, Opcode: wsref.OpClose, Payload: wsref.ClosePayload(codes[r.Intn(len(codes))], string(small()))}, 4}}
	case evCloseEmpty:
		return []c08Frame{{wsref.Frame{Fin: true, Opcode: wsref.OpClose}, 4}}
	case evCloseOneByte:
		return []c08Frame{{wsref.Frame{Fin: true, Opcode: wsref.OpClose, Payload: []byte{0x03}}, 4}}
	case evCloseBadCode:
		codes := []uint16{0, 999, 1004, 1005, 1006, 1015, 2999, 5000, 65535}
		code := codes[r.Intn(len(codes))]
		if r.Bool() {
			// anywhere in the ranges no endpoint may send: below 1000, 1004-1006, 1014-2999, 5000 and above
			switch r.Intn(4) {
			case 0:
				code = uint16(r.Intn(1000))
			case 1:
				code = uint16(r.Range(1004, 1006))
			case 2:
				code = uint16(r.Range(1014, 2999))
			default:
				code = uint16(r.Range(5000, 65535))
			}
		}
		return []c08Frame{{wsref.Frame{Fin: true, Opcode: wsref.OpClose, Payload: wsref.ClosePayload(code, "x")}, 4}}
	case evCloseBadUTF8:
		return []c08Frame{{wsref.Frame{Fin: true, Opcode: wsref.OpClose, Payload: append(wsref.ClosePayload(1000, ""), 0xff, 0xfe, 0xc0)}, 4}}
	case evViolation:
		return []c08Frame{{wsref.Frame{Fin: true, Rsv1: true, Opcode: wsref.OpText, Payload: small()}, 5}}
	}
	return nil
}

// readOne performs one frame-level read against the model expectation.
func (x *c08Run) readOne(fr *c08Frame, async bool, label string) {
	api := "NextFrame"
	if async {
		api = "AsyncNextFrame"
	}
	want := x.modelReadFrame(fr, x.t.End)
	var f websocket.Frame
	var err error
	if async {
		calls := 0
		x.s.AsyncNextFrame(func(e error, g websocket.Frame) { calls++; err = e; f = append(websocket.Frame(nil), g...) })
		x.t.Pump()
		if calls != 1 {
			if want == "wouldblock" && calls == 0 {
				return
			}
			x.fail("read-callback-count", "%s %s: callback invoked %d times (model expects %s)", api, label, calls, want)
			return
		}
	} else {
		var g websocket.Frame
		g, err = x.s.NextFrame()
		f = append(websocket.Frame(nil), g...)
	}
	x.checkReadOutcome(api, label, want, fr, f, err)
}

func (x *c08Run) checkReadOutcome(api, label, want string, fr *c08Frame, f websocket.Frame, err error) {
	switch want {
	case "frame":
		if err != nil {
			x.fail("read-error-on-conforming-frame", "%s %s: returned %v, model expects the frame %v (model state %v)", api, label, err, fr.f, x.m.state)
			return
		}
		if len(f) < 2 || byte(f.Opcode()) != fr.f.Opcode || !bytes.Equal(f.Payload(), fr.f.Payload) {
			x.fail("read-frame-differs", "%s %s: returned a different frame than the peer sent (%v)", api, label, fr.f)
		}
	case "eof":
		if !errors.Is(err, io.EOF) {
			x.fail("read-not-end-of-stream", "%s %s: model state %v requires end-of-stream, got err=%v", api, label, x.m.state, err)
		}
	case "eof1006":
		if err == nil {
			x.fail("transport-eof-not-reported", "%s %s: transport EOF returned no error", api, label)
			return
		}
		if len(f) < 2 || f.Opcode() != websocket.OpcodeClose || len(f.Payload()) < 2 || int(f.Payload()[0])<<8|int(f.Payload()[1]) != 1006 {
			x.fail("transport-eof-not-surfaced-as-1006", "%s %s: transport EOF was not surfaced as a Close(1006) frame (err=%v, frame=%x)", api, label, err, []byte(f))
		}
	case "error":
		if err == nil {
			x.fail("violation-or-error-not-reported", "%s %s: returned no error", api, label)
		}
	case "wouldblock":
		if !errors.Is(err, sonicerrors.ErrWouldBlock) {
			x.fail("read-with-nothing-available", "%s %s: nothing available, got err=%v", api, label, err)
		}
	}
}

// readMessage performs a message-level read over the frames of this step.
func (x *c08Run) readMessage(frames []c08Frame, async bool, label string) {
	api := "NextMessage"
	if async {
		api = "AsyncNextMessage"
	}
	// reference semantics: loop reading frames until a final data frame, an error, eof or would-block
	want := ""
	var wantCtl []c06Ctl
	var wantPayload []byte
	i := 0
	for {
		var fr *c08Frame
		if i < len(frames) {
			fr = &frames[i]
		}
		stateBefore := x.m.state
		out := x.modelReadFrame(fr, x.t.End)
		_ = stateBefore
		if out == "frame" {
			i++
			switch fr.kind {
			case 0:
				wantPayload = append(wantPayload, fr.f.Payload...)
				want = "message"
			case 1:
				wantPayload = append(wantPayload, fr.f.Payload...)
				continue
			default:
				wantCtl = append(wantCtl, c06Ctl{fr.f.Opcode, fr.f.Payload})
				continue
			}
		} else {
			if fr != nil {
				i++
			}
			want = out
		}
		break
	}
	if want == "wouldblock" && async {
		// an asynchronous message read would stay parked; the generator never asks for that
		x.fail("harness-generated-parked-read", "internal: async message read would park")
		return
	}
	x.ctl = nil
	buf := make([]byte, 4096)
	var n int
	var err error
	if async {
		calls := 0
		x.s.AsyncNextMessage(buf, func(e error, nn int, _ websocket.MessageType) { calls++; err, n = e, nn })
		x.t.Pump()
		if calls != 1 {
			x.fail("read-callback-count", "%s %s: callback invoked %d times (model expects %s)", api, label, calls, want)
			return
		}
	} else {
		_, n, err = x.s.NextMessage(buf)
	}
	switch want {
	case "message":
		if err != nil || !bytes.Equal(buf[:n], wantPayload) {
			x.fail("message-differs", "%s %s: err=%v n=%d, peer sent %d bytes", api, label, err, n, len(wantPayload))
		}
	case "eof", "eof1006":
		if !errors.Is(err, io.EOF) {
			x.fail("read-not-end-of-stream", "%s %s: model state %v requires end-of-stream, got err=%v", api, label, x.m.state, err)
		}
	case "error":
		if err == nil {
			x.fail("violation-or-error-not-reported", "%s %s: returned no error", api, label)
		}
	case "wouldblock":
		if !errors.Is(err, sonicerrors.ErrWouldBlock) {
			x.fail("read-with-nothing-available", "%s %s: nothing more available, got err=%v", api, label, err)
		}
	}
	if len(x.ctl) != len(wantCtl) {
		x.fail("control-callback-count", "%s %s: control callback invoked %d times for %d control frames", api, label, len(x.ctl), len(wantCtl))
		return
	}
	for j := range wantCtl {
		if x.ctl[j].op != wantCtl[j].op || !bytes.Equal(x.ctl[j].payload, wantCtl[j].payload) {
			x.fail("control-callback-differs", "%s %s: control callback %d differs from the control frame sent", api, label, j)
		}
	}
}

func (x *c08Run) step(i, sym int) {
	if x.dead || x.c.Failed() {
		return
	}
	r, m, s, t := x.r, x.m, x.s, x.t
	name := c08Names[sym]
	label := fmt.Sprintf("step %d", i)
	stateBefore := m.state
	switch {
	case sym <= evViolation:
		frames := x.mkFrames(sym)
		for _, f := range frames {
			t.Feed(f.f.Encode())
		}
		last := frames[len(frames)-1].kind
		completes := last == 0 || last == 4 || last == 5 // a message-level read terminates on it
		api := r.Intn(4)
		if !completes && api == 3 {
			api = r.Intn(3) // never park an async message read
		}
		if !m.canRead() && api == 3 {
			api = 2
		}
		x.c.Logf("%s: %s read with %s (model state %v)", label, name, c06APIs[api], m.state)
		switch api {
		case 0, 1:
			for j := range frames {
				x.readOne(&frames[j], api == 1, label+" "+name)
				if !m.canRead() {
					break
				}
			}
		default:
			x.readMessage(frames, api == 3, label+" "+name)
		}
		// whatever was not consumed (reads refused) is discarded so that later steps start clean
		if t.Unread() > 0 {
			x.dropUnread()
		}
	case sym == evEOF:
		if r.Bool() && m.canRead() {
			// the transport ends in the middle of a frame: still an abnormal closure, the fragment is not a frame
			enc := wsref.Frame{Fin: true, Opcode: wsref.OpText, Payload: asciiBytes(r, r.Range(1, 300))}.Encode()
			k := r.Range(1, len(enc)-1)
			t.Feed(enc[:k])
			x.c.Logf("%s: the peer sends the first %d of %d bytes of a frame and the transport ends", label, k, len(enc))
			x.c.Count("transport_ends_inside_a_frame", 1)
		}
		t.SetEnd(xport.EndEOF)
		api := r.Intn(4)
		x.c.Logf("%s: transport EOF, read with %s (model state %v)", label, c06APIs[api], m.state)
		if api <= 1 {
			x.readOne(nil, api == 1, label+" "+name)
		} else {
			x.readMessage(nil, api == 3, label+" "+name)
		}
	case sym == evTransportError:
		t.SetEnd(xport.EndError)
		api := r.Intn(4)
		x.c.Logf("%s: transport error, read with %s (model state %v)", label, c06APIs[api], m.state)
		if api <= 1 {
			x.readOne(nil, api == 1, label+" "+name)
		} else {
			x.readMessage(nil, api == 3, label+" "+name)
		}
		if m.canRead() || stateBefore == mActive || stateBefore == mClosedByUs {
			x.dead = true // what a transport error leaves behind is not prescribed
		}
	case sym == lcWrite || sym == lcAsyncWrite || sym == lcWriteFramePing:
		payload := asciiBytes(r, r.Intn(30))
		op := byte(wsref.OpText)
		var err error
		x.c.Logf("%s: %s %d bytes (model state %v)", label, name, len(payload), m.state)
		switch sym {
		case lcWrite:
			err = s.Write(payload, websocket.TypeText)
		case lcAsyncWrite:
			calls := 0
			// sometimes the transport holds the write (socket not writable) and a local AsyncClose is started
			// before it completes: the Close goes after the message, exactly once
			overlap := m.state == mActive && r.Chance(1, 4)
			if !overlap && m.state == mActive && t.End == xport.EndWouldBlock && r.Chance(1, 4) {
				// a read is parked, the write is held by the transport, the peer's Ping arrives: its Pong is written by
				// the flush in flight once the message is out; while that Pong is on its way another message is
				// submitted. Wire order: message, Pong, message - each exactly once.
				m.flush()
				rcalls := 0
				var rerr error
				var rf websocket.Frame
				s.AsyncNextFrame(func(e error, g websocket.Frame) { rcalls++; rerr = e; rf = append(websocket.Frame(nil), g...) })
				t.Pump()
				if rcalls != 0 {
					x.fail("read-with-nothing-available", "%s: AsyncNextFrame with nothing to read completed (err=%v)", label, rerr)
					return
				}
				t.HoldWrites = true
				s.AsyncWrite(payload, websocket.TypeText, func(e error) { calls++; err = e })
				m.all = append(m.all, c08Owed{op, payload, "application frame"})
				bigFirst := r.Chance(1, 3)
				var second []byte
				ycalls := 0
				var yerr error
				if bigFirst {
					// ... a large second message is submitted before the Ping arrives: the flush that follows the first message
					// starts with two frames queued, the first of them larger than 64 KiB
					second = asciiBytes(r, r.Range(66000, 120000))
					s.AsyncWrite(second, websocket.TypeText, func(e error) { ycalls++; yerr = e })
					m.all = append(m.all, c08Owed{op, second, "application frame"})
				}
				ping := x.mkFrames(evPing)
				want := x.modelReadFrame(&ping[0], t.End)
				t.Feed(ping[0].f.Encode())
				t.Pump()
				x.c.Logf("   (read parked, write held) a %d-byte Ping arrives: read callback %d times err=%v", len(ping[0].f.Payload), rcalls, rerr)
				if rcalls != 1 {
					x.fail("read-callback-count", "%s: AsyncNextFrame parked before a held write: callback invoked %d times when the Ping arrived", label, rcalls)
					return
				}
				x.checkReadOutcome("AsyncNextFrame", label+" ping during a held write", want, &ping[0], rf, rerr)
				t.ReleaseOneWrite() // the message is out; the flush in flight goes on with the Pong, which is held
				t.Pump()
				if !bigFirst {
					second = asciiBytes(r, r.Intn(30))
					s.AsyncWrite(second, websocket.TypeText, func(e error) { ycalls++; yerr = e })
				}
				t.ReleaseWrites()
				t.Pump()
				if calls != 1 || ycalls != 1 || err != nil || yerr != nil {
					x.fail("write-during-pong-in-flight", "%s: AsyncWrite, Ping read, AsyncWrite while the Pong is held: first write callback %d times (%v), second %d times (%v)", label, calls, err, ycalls, yerr)
					return
				}
				if !bigFirst {
					m.all = append(m.all, c08Owed{op, second, "application frame"})
				}
				m.flush()
				x.c.Count("writes_started_while_a_pong_is_in_flight", 1)
				x.verify(name + "+ping+AsyncWrite-overlap " + label)
				return
			}
			if overlap {
				t.HoldWrites = true
			}
			s.AsyncWrite(payload, websocket.TypeText, func(e error) { calls++; err = e })
			if overlap {
				code := []uint16{1000, 1001, 3000}[r.Intn(3)]
				x.c.Logf("   (the write is held by the transport) AsyncClose(%d) before it completes", code)
				ccalls := 0
				var cerr error
				s.AsyncClose(websocket.CloseCode(code), "", func(e error) { ccalls++; cerr = e })
				t.ReleaseWrites()
				t.Pump()
				if calls != 1 || ccalls != 1 || err != nil || cerr != nil {
					x.fail("close-during-held-write", "%s %s then AsyncClose before the write completed: write callback %d times (%v), close callback %d times (%v)", label, name, calls, err, ccalls, cerr)
					return
				}
				m.all = append(m.all, c08Owed{op, payload, "application frame"})
				m.state = mClosedByUs
				m.all = append(m.all, c08Owed{wsref.OpClose, []byte{byte(code >> 8), byte(code)}, fmt.Sprintf("local close %d during a held write", code)})
				m.flush()
				x.c.Count("close_started_during_held_write", 1)
				x.verify(name + "+AsyncClose-overlap " + label + " from " + stateBefore.String())
				return
			}
			t.Pump()
			if calls != 1 {
				x.fail("write-callback-count", "%s %s: callback invoked %d times", label, name, calls)
				return
			}
		default:
			op = wsref.OpPing
			f := s.AcquireFrame()
			f.SetFIN().SetPing().SetPayload(payload)
			err = s.WriteFrame(f)
		}
		if m.state == mActive {
			m.all = append(m.all, c08Owed{op, payload, "application frame"})
			m.flush()
			if err != nil {
				x.fail("write-refused-while-active", "%s %s: returned %v in the active state", label, name, err)
			}
		} else if err == nil {
			x.fail("write-accepted-when-not-active", "%s %s: accepted in model state %v", label, name, m.state)
		}
	case sym == lcFlush || sym == lcAsyncFlush:
		x.c.Logf("%s: %s (model state %v)", label, name, m.state)
		var err error
		if sym == lcFlush {
			err = s.Flush()
		} else {
			calls := 0
			s.AsyncFlush(func(e error) { calls++; err = e })
			t.Pump()
			if calls != 1 {
				x.fail("flush-callback-count", "%s %s: callback invoked %d times", label, name, calls)
				return
			}
		}
		m.flush()
		if err != nil {
			x.fail("flush-error-on-healthy-transport", "%s %s: %v", label, name, err)
		}
	default: // Close / AsyncClose
		codes := []uint16{1000, 1001, 3000}
		code := codes[r.Intn(len(codes))]
		reason := string(asciiBytes(r, r.Intn(10)))
		x.c.Logf("%s: %s(%d,%q) (model state %v)", label, name, code, reason, m.state)
		var err error
		// while the Close frame itself is still on its way out (asynchronous write held by the transport, or a
		// blocking write that hit would-block), the stream is already closed-by-us: writes and a second Close are refused
		window := m.state == mActive && r.Chance(1, 3)
		inWindow := func(how string) bool {
			if st := s.State(); st != websocket.StateClosedByUs {
				x.fail("state-differs/closed-by-us", "%s %s: %s, State()=%v before the Close frame has left", label, name, how, st)
				return false
			}
			var werr error
			switch r.Intn(3) {
			case 0:
				wcalls := 0
				s.AsyncWrite([]byte("late"), websocket.TypeText, func(e error) { wcalls++; werr = e })
				if wcalls != 1 || werr == nil {
					x.fail("write-accepted-when-not-active", "%s %s: %s, AsyncWrite was accepted (callback calls=%d err=%v)", label, name, how, wcalls, werr)
					return false
				}
			case 1:
				if werr = s.Write([]byte("late"), websocket.TypeText); werr == nil || errors.Is(werr, sonicerrors.ErrWouldBlock) {
					x.fail("write-accepted-when-not-active", "%s %s: %s, Write returned %v", label, name, how, werr)
					return false
				}
			default:
				ccalls := 0
				s.AsyncClose(websocket.CloseNormal, "", func(e error) { ccalls++; werr = e })
				if ccalls != 1 || werr == nil {
					x.fail("close-accepted-when-not-active", "%s %s: %s, a second AsyncClose was accepted (callback calls=%d err=%v)", label, name, how, ccalls, werr)
					return false
				}
			}
			x.c.Count("calls_refused_while_the_close_frame_was_in_flight", 1)
			return true
		}
		if sym == lcClose {
			if window {
				t.WriteBlockAt = len(t.Written) + r.Intn(6)
			}
			err = s.Close(websocket.CloseCode(code), reason)
			if window {
				if errors.Is(err, sonicerrors.ErrWouldBlock) {
					if !inWindow("blocking Close interrupted by would-block") {
						return
					}
					for tries := 0; tries < 4 && errors.Is(err, sonicerrors.ErrWouldBlock); tries++ {
						err = s.Flush()
					}
				}
				t.WriteBlockAt = -1
			}
		} else {
			calls := 0
			if window {
				t.HoldWrites = true
			}
			s.AsyncClose(websocket.CloseCode(code), reason, func(e error) { calls++; err = e })
			if window {
				ok := calls == 0 && inWindow("AsyncClose held by the transport")
				t.ReleaseWrites()
				if !ok && x.c.Failed() {
					return
				}
			}
			t.Pump()
			if calls != 1 {
				x.fail("close-callback-count", "%s %s: callback invoked %d times", label, name, calls)
				return
			}
		}
		if m.state == mActive {
			m.state = mClosedByUs
			m.all = append(m.all, c08Owed{wsref.OpClose, []byte{byte(code >> 8), byte(code)}, fmt.Sprintf("local close %d", code)})
			m.flush()
			if err != nil {
				x.fail("close-refused-while-active", "%s %s: returned %v in the active state", label, name, err)
			}
		} else if err == nil {
			x.fail("close-accepted-when-not-active", "%s %s: returned nil in model state %v", label, name, m.state)
		}
	}
	x.verify(name + " " + label + " from " + stateBefore.String())
}

// dropUnread discards peer bytes the client refused to read (terminal state) so later steps are unambiguous.
func (x *c08Run) dropUnread() {
	buf := make([]byte, 1<<16)
	for x.t.Unread() > 0 {
		if _, err := x.t.Read(buf); err != nil {
			break
		}
	}
}

func runC08(c *vf.Case) {
	r := c.Rng
	// systematic part: all sequences of length <= L over the alphabet; then random longer ones
	A := int(c08Alphabet)
	L := 3
	if c.Tier == "thorough" {
		L = 4
	}
	var seq []int
	idx := c.Index
	systematic := false
	base := 0
	for l, pow := 1, A; l <= L; l, pow = l+1, pow*A {
		if idx < base+pow {
			k := idx - base
			for j := 0; j < l; j++ {
				seq = append(seq, k%A)
				k /= A
			}
			systematic = true
			break
		}
		base += pow
	}
	if !systematic {
		n := r.Range(5, 14)
		for j := 0; j < n; j++ {
			seq = append(seq, r.Intn(A))
		}
	}
	s, t := newWS(c)
	if s == nil {
		return
	}
	x := &c08Run{c: c, r: r, s: s, t: t, m: &c08Model{}, pairs: map[string]bool{}}
	t.DeferReads = r.Bool()
	t.DeferWrites = r.Bool()
	t.WriteMax = []int{0, 0, 1, 5}[r.Intn(4)]
	s.SetControlCallback(func(mt websocket.MessageType, p []byte) {
		x.ctl = append(x.ctl, c06Ctl{byte(mt), append([]byte(nil), p...)})
	})
	names := make([]string, len(seq))
	for i, sy := range seq {
		names[i] = c08Names[sy]
	}
	c.Logf("sequence (systematic=%v): %s", systematic, strings.Join(names, " ; "))
	left := false
	after := 0
	for i, sy := range seq {
		x.step(i, sy)
		if left {
			after++
		}
		if x.m.state != mActive {
			left = true
		}
	}
	for p := range x.pairs {
		c.Cover("state_x_event", p)
	}
	c.Count("sequences", 1)
	c.Count("steps", len(seq))
	if systematic {
		c.Count("systematic_sequences", 1)
	}
	if left && after >= 2 {
		c.NonTrivial(strings.Join(names, ";"))
	}
}

func c08NumCases(tier string) int {
	A := int(c08Alphabet)
	if tier == "thorough" {
		return A + A*A + A*A*A + A*A*A*A + 2000000
	}
	return A + A*A + A*A*A + 3000
}

func init() {
	register(&vf.Check{
		ID:        "C08",
		Technique: "online trace checker: an executable RFC 6455 client model (state + total order of owed frames) runs in lock-step with the real Stream on a scripted transport; the wire is re-parsed by an independent parser after every step and compared with the model together with State(), Pending() and call outcomes",
		Rule: "in a quarter of the active-state AsyncWrite steps a read is parked first, the write is held, a Ping arrives, the write is released and a second message is submitted while the Pong is held (or a 66-120 KB message is queued before the Ping arrives); " +
			"cases = ALL sequences of length <= 3 (quick) / <= 4 (thorough) over a 20-symbol alphabet {peer text, fragmented message, ping, pong, ping+text, close valid/empty/1-byte/invalid-code/bad-UTF-8, framing violation, transport EOF, transport error; local Write, AsyncWrite, WriteFrame(ping), Flush, AsyncFlush, Close, AsyncClose} followed by random sequences of length 5-14; the read API (NextFrame/AsyncNextFrame/NextMessage/AsyncNextMessage), payloads, close codes and transport behaviour (inline/deferred, partial writes) are drawn from the PRNG; the transport may end after the first k bytes of a frame; an AsyncWrite may be held by the transport while AsyncClose is started; while the local Close frame is held (or a blocking Close was interrupted by would-block) State, Write, AsyncWrite and a second AsyncClose are probed; " +
			"non-trivial = the sequence leaves the active state and continues for >= 2 events; distinct = distinct event sequences",
		Assumptions: []string{
			"a Pong for a Ping received after the client's own Close is neither required nor forbidden",
			"the reply to a peer Close must carry the peer's status code (1000 if none, 1002 if invalid); the reason text is not compared",
			"after a read was refused with end-of-stream in closed-by-peer/close-acked, State() may also say terminated",
			"what a transport *error* (not EOF) leaves behind is not prescribed: the sequence is not compared further",
			"asynchronous message reads are only started when the supplied frames terminate them (no parked reads across steps)",
		},
		NumCases:    func(tier, build string) int { return c08NumCases(tier) },
		Floor:       func(tier string) int { return vf.Tiered(tier, 2000, 50000) },
		CaseTimeout: 30 * time.Second,
		Run:         runC08,
	})
}
