package checks

import (
	"bytes"
	"encoding/binary"
	"errors"
	"fmt"
	"net"
	"net/netip"
	"os"
	"os/exec"
	"strings"
	"syscall"
	"time"

	"github.com/talostrading/sonic"
	"github.com/talostrading/sonic/multicast"
	"github.com/talostrading/sonic/sonicerrors"
	"golang.org/x/sys/unix"

	"verif/internal/rawpeer"
	"verif/internal/vf"
)

// C12 - UDP datagram boundaries, addressing, multicast membership.
//
// Oracles: stamped datagrams (sender, sequence, length, generated body) verified on both ends with raw
// sockets; the kernel (getsockname / getsockopt on RawFd()) for every getter; a membership model for the
// multicast peer. NON-delivery is decided without a timeout: after the probe datagram a unicast FENCE
// datagram is sent to the same socket; once the fence has been read, an earlier datagram that was going to
// be delivered would already have been.

const c12Hdr = 16

func c12Stamp(sender, seq uint32, n int, gen uint64) []byte {
	if n < 1 {
		n = 1
	}
	b := make([]byte, n)
	vf.GenFill(b, gen^uint64(sender)<<32^uint64(seq), 0)
	var h [c12Hdr]byte
	binary.BigEndian.PutUint32(h[0:], 0xC12C12C1)
	binary.BigEndian.PutUint32(h[4:], sender)
	binary.BigEndian.PutUint32(h[8:], seq)
	binary.BigEndian.PutUint32(h[12:], uint32(n))
	copy(b, h[:min(n, c12Hdr)])
	return b
}

// mcastIface finds an interface that is up, multicast-capable and has an IPv4 address.
func mcastIface() (name string, ip [4]byte, ok bool) {
	ifs, err := net.Interfaces()
	if err != nil {
		return "", ip, false
	}
	// prefer a real interface; fall back to a loopback that was made multicast-capable (private network
	// namespace of the child process: `ip link set lo multicast on; ip route add 224.0.0.0/4 dev lo`)
	for pass := 0; pass < 2; pass++ {
		for _, it := range ifs {
			if it.Flags&net.FlagUp == 0 || it.Flags&net.FlagMulticast == 0 {
				continue
			}
			if (it.Flags&net.FlagLoopback != 0) != (pass == 1) {
				continue
			}
			addrs, _ := it.Addrs()
			for _, a := range addrs {
				if n, ok2 := a.(*net.IPNet); ok2 {
					if v4 := n.IP.To4(); v4 != nil {
						copy(ip[:], v4)
						return it.Name, ip, true
					}
				}
			}
		}
	}
	return "", ip, false
}

func pollUntil(ioc *sonic.IO, done func() bool, d time.Duration) bool {
	dl := time.Now().Add(d)
	for i := 0; !done(); i++ {
		_, _ = ioc.PollOne()
		if done() {
			return true
		}
		if i > 20 {
			if time.Now().After(dl) {
				return false
			}
			time.Sleep(50 * time.Microsecond)
		}
	}
	return true
}

// ---------------------------------------------------------------- packet conn

func c12PacketConn(c *vf.Case) {
	r := c.Rng
	ioc := sonic.MustIO()
	defer ioc.Close()
	bindForms := []string{"", ":0", "127.0.0.1:0", "localhost:0"}
	form := bindForms[r.Intn(len(bindForms))]
	pc, err := sonic.ListenPacket(ioc, "udp", form)
	if err != nil {
		c.Failf("packetconn-constructor/"+form, "ListenPacket(%q): %v", form, err)
		return
	}
	defer pc.Close()
	rawpeer.SetBufs(pc.RawFd(), 0, 4<<20)
	sa, _ := syscall.Getsockname(pc.RawFd())
	port := sa.(*syscall.SockaddrInet4).Port
	dst := &syscall.SockaddrInet4{Addr: [4]byte{127, 0, 0, 1}, Port: port}
	gen := r.U64()
	nsend := r.Range(1, 3)
	type sender struct {
		fd, port int
		id       uint32
		ip       [4]byte
		seq      uint32
	}
	var senders []*sender
	var reusedAddr *net.UDPAddr
	for i := 0; i < nsend; i++ {
		ip := [4]byte{127, 0, 0, 1}
		fd, p := -1, 0
		if i > 0 && r.Bool() {
			// another host of a redundant feed: a different loopback address, the SAME source port as the first sender
			ip = [][4]byte{{127, 0, 0, 2}, {127, 1, 0, 1}, {127, 0, 1, 1}, {127, 2, 0, 1}}[r.Intn(4)]
			if f, e := syscall.Socket(syscall.AF_INET, syscall.SOCK_DGRAM|syscall.SOCK_NONBLOCK|syscall.SOCK_CLOEXEC, 0); e == nil {
				if e = syscall.Bind(f, &syscall.SockaddrInet4{Addr: ip, Port: senders[0].port}); e == nil {
					fd, p = f, senders[0].port
					c.Count("senders_on_another_address_with_the_same_port", 1)
				} else {
					syscall.Close(f)
				}
			}
		}
		if fd < 0 {
			var err error
			fd, p, err = rawpeer.UDP4(ip)
			if err != nil {
				c.Failf("harness-setup", "%v", err)
				return
			}
		}
		defer syscall.Close(fd)
		rawpeer.SetBufs(fd, 4<<20, 4<<20)
		senders = append(senders, &sender{fd: fd, port: p, id: uint32(i + 1), ip: ip})
	}
	// a second packet conn on the same IO context and a sink nobody reads
	var pc2 sonic.PacketConn
	var sinkAddr *net.UDPAddr
	if sink, sinkPort, err := rawpeer.UDP4([4]byte{127, 0, 0, 1}); err == nil {
		defer syscall.Close(sink)
		if q, err := sonic.ListenPacket(ioc, "udp", "127.0.0.1:0"); err == nil {
			pc2 = q
			defer q.Close()
			sinkAddr = &net.UDPAddr{IP: net.IPv4(127, 0, 0, 1), Port: sinkPort}
		}
	}
	c.Logf("ListenPacket(%q) -> port %d, %d senders", form, port, nsend)
	sizes := []int{1, 2, 17, 1472, 1473, 8192, 65507}
	rounds := r.Range(3, 12)
	for round := 0; round < rounds && !c.Failed(); round++ {
		// a burst of datagrams from random senders
		burst := r.Range(1, 8)
		if r.Chance(1, 5) {
			burst = r.Range(20, 64)
		}
		type sent struct {
			s    *sender
			seq  uint32
			data []byte
		}
		var queue []sent
		deferredFirst := r.Chance(1, 3)
		// optionally arm the read before anything is sent (deferred path) or force the deferred path
		size := sizes[r.Intn(len(sizes))]
		if r.Chance(1, 3) {
			size = r.Range(1, 3000)
		}
		for i := 0; i < burst; i++ {
			s := senders[r.Intn(len(senders))]
			n := sizes[r.Intn(len(sizes))]
			if r.Chance(1, 2) {
				n = r.Range(1, 2000)
			}
			queue = append(queue, sent{s, s.seq, c12Stamp(s.id, s.seq, n, gen)})
			s.seq++
		}
		send := func() {
			for _, q := range queue {
				if err := syscall.Sendto(q.s.fd, q.data, 0, dst); err != nil {
					c.Failf("harness-setup", "sendto: %v", err)
					return
				}
			}
		}
		if !deferredFirst {
			send()
		}
		for i := 0; i < len(queue) && !c.Failed(); i++ {
			bufSize := size
			if r.Chance(1, 2) {
				bufSize = []int{1, 16, 1472, 70000}[r.Intn(4)]
			}
			buf := make([]byte, bufSize)
			for j := range buf {
				buf[j] = 0xEE
			}
			calls := 0
			var n int
			var from net.Addr
			var rerr error
			sync := r.Chance(1, 5) && !deferredFirst
			forced := r.Chance(1, 3)
			if sync {
				n, from, rerr = pc.ReadFrom(buf)
				calls = 1
			} else {
				saved := ioc.Dispatched
				if forced {
					ioc.Dispatched = sonic.MaxCallbackDispatch
				}
				pc.AsyncReadFrom(buf, func(e error, k int, a net.Addr) { calls++; rerr, n, from = e, k, a })
				ioc.Dispatched = saved
				if deferredFirst && i == 0 {
					send()
				}
				if !pollUntil(ioc, func() bool { return calls > 0 }, 3*time.Second) {
					c.Failf("datagram-read-never-completed", "AsyncReadFrom did not complete although %d datagrams were sent", len(queue)-i)
					return
				}
			}
			if calls != 1 {
				c.Failf("datagram-read-callback-count", "read callback invoked %d times", calls)
				return
			}
			if rerr != nil {
				c.Failf("datagram-read-error", "read %d of the burst: %v", i, rerr)
				return
			}
			// identify the datagram by its stamp (ordering between senders is free, per sender it is FIFO on loopback)
			var got *sent
			if n >= c12Hdr {
				sid, seq := binary.BigEndian.Uint32(buf[4:]), binary.BigEndian.Uint32(buf[8:])
				for k := range queue {
					if queue[k].s.id == sid && queue[k].seq == seq {
						got = &queue[k]
					}
				}
			} else {
				// too short for a stamp: match by prefix among datagrams not yet seen
				for k := range queue {
					if queue[k].data != nil && bytes.Equal(buf[:n], queue[k].data[:min(n, len(queue[k].data))]) {
						got = &queue[k]
						break
					}
				}
			}
			if got == nil || got.data == nil {
				c.Failf("datagram-unknown-or-duplicated", "a read returned %d bytes that are not (the prefix of) a datagram sent and not yet delivered", n)
				return
			}
			want := min(len(got.data), len(buf))
			if n != want {
				c.Failf("datagram-length-differs", "datagram of %d bytes read into a %d-byte buffer: n=%d, want %d (one read per datagram, truncated to the buffer)", len(got.data), len(buf), n, want)
				return
			}
			if !bytes.Equal(buf[:n], got.data[:n]) {
				c.Failf("datagram-bytes-differ", "datagram of %d bytes: the %d bytes read differ from what was sent", len(got.data), n)
				return
			}
			for j := n; j < len(buf); j++ {
				if buf[j] != 0xEE {
					c.Failf("datagram-read-touched-buffer-beyond-n", "byte %d of the buffer was written although n=%d", j, n)
					return
				}
			}
			fip, fport := addrIPPort(from)
			if fport != got.s.port || !fip.Equal(net.IP(got.s.ip[:])) {
				c.Failf("datagram-sender-address-differs", "datagram from %v:%d reported as coming from %v", net.IP(got.s.ip[:]), got.s.port, from)
				return
			}
			if n < len(got.data) {
				c.Count("truncated_reads", 1)
			}
			got.data = nil
			c.Count("datagrams_verified", 1)
			if sync {
				c.Count("blocking_reads", 1)
			} else if forced || deferredFirst {
				c.Count("deferred_reads", 1)
			}
		}
		// writes: each emits exactly one datagram with the caller's bytes to the destination
		if reusedAddr == nil {
			reusedAddr = &net.UDPAddr{IP: net.IPv4(127, 0, 0, 1)}
		}
		for k := 0; k < r.Intn(4) && !c.Failed(); k++ {
			s := senders[r.Intn(len(senders))]
			n := sizes[r.Intn(len(sizes))]
			data := c12Stamp(7, uint32(round*10+k), n, gen)
			to := &net.UDPAddr{IP: net.IPv4(s.ip[0], s.ip[1], s.ip[2], s.ip[3]), Port: s.port}
			if r.Bool() {
				// allocation-averse callers keep one address value and update it in place between writes
				reusedAddr.Port = s.port
				reusedAddr.IP = net.IPv4(s.ip[0], s.ip[1], s.ip[2], s.ip[3])
				to = reusedAddr
				c.Count("writes_with_an_address_value_updated_in_place", 1)
			}
			calls := 0
			var werr error
			if r.Bool() {
				werr = pc.WriteTo(data, to)
				calls = 1
			} else {
				saved := ioc.Dispatched
				if r.Chance(1, 3) {
					ioc.Dispatched = sonic.MaxCallbackDispatch
				}
				pc.AsyncWriteTo(data, to, func(e error) { calls++; werr = e })
				ioc.Dispatched = saved
				if calls == 0 && pc2 != nil {
					// the write is parked until the next poll cycle; meanwhile another packet conn of the same IO context
					// writes somewhere else: the parked datagram still goes where it was addressed
					_ = pc2.WriteTo([]byte("from the other packet conn"), sinkAddr)
					c.Count("writes_by_another_packet_conn_while_a_write_is_parked", 1)
				}
				pollUntil(ioc, func() bool { return calls > 0 }, 3*time.Second)
			}
			if calls != 1 || werr != nil {
				c.Failf("datagram-write-failed", "write of %d bytes: callback calls=%d err=%v", n, calls, werr)
				return
			}
			rb := make([]byte, 70000)
			var rn int
			var rfrom syscall.Sockaddr
			ok := false
			for t := 0; t < 2000; t++ {
				rn, rfrom, err = syscall.Recvfrom(s.fd, rb, 0)
				if err == nil {
					ok = true
					break
				}
				rawpeer.WaitReadable(s.fd, 2)
			}
			if !ok {
				for _, o := range senders {
					if on, _, oerr := syscall.Recvfrom(o.fd, rb, 0); oerr == nil && o != s {
						c.Failf("datagram-written-to-wrong-destination", "a %d-byte write addressed to %v:%d arrived (%d bytes) at %v:%d", n, net.IP(s.ip[:]), s.port, on, net.IP(o.ip[:]), o.port)
						return
					}
				}
				c.Failf("datagram-written-not-received", "a %d-byte write never reached the destination socket", n)
				return
			}
			if rn != len(data) || !bytes.Equal(rb[:rn], data) {
				c.Failf("datagram-written-differs", "wrote %d bytes, the destination received %d (content equal: %v)", len(data), rn, bytes.Equal(rb[:min(rn, len(data))], data[:min(rn, len(data))]))
				return
			}
			if a, ok := rfrom.(*syscall.SockaddrInet4); !ok || a.Port != port {
				c.Failf("datagram-written-from-wrong-source", "datagram arrived from %v, the packet conn is bound to port %d", rfrom, port)
				return
			}
			if _, _, err := syscall.Recvfrom(s.fd, rb, 0); err == nil {
				c.Failf("datagram-written-more-than-once", "one write produced more than one datagram at the destination")
				return
			}
			c.Count("writes_verified", 1)
		}
	}
	c.Cover("bind_forms", "packetconn "+form)
	c.NonTrivial(fmt.Sprintf("pc/%s/%d/%d", form, nsend, rounds))
}

func addrIPPort(a net.Addr) (net.IP, int) {
	switch v := a.(type) {
	case *net.UDPAddr:
		return v.IP, v.Port
	case *net.TCPAddr:
		return v.IP, v.Port
	}
	return nil, -1
}

// ---------------------------------------------------------------- multicast peer: getters vs kernel

var c12LoopSet = map[*multicast.UDPPeer]bool{}

func c12CheckGetters(c *vf.Case, p *multicast.UDPPeer, after string) {
	fd := p.NextLayer().RawFd()
	sa, err := syscall.Getsockname(fd)
	if err == nil {
		k := sa.(*syscall.SockaddrInet4)
		la := p.LocalAddr()
		if la == nil || la.Port != k.Port || !la.IP.Equal(net.IP(k.Addr[:])) {
			c.Failf("getter-differs-from-kernel/LocalAddr/"+after, "after %s: LocalAddr()=%v, getsockname says %v:%d", after, la, net.IP(k.Addr[:]), k.Port)
		}
	}
	if ttl, err := syscall.GetsockoptInt(fd, syscall.IPPROTO_IP, syscall.IP_MULTICAST_TTL); err == nil && int(p.TTL()) != ttl {
		c.Failf("getter-differs-from-kernel/TTL/"+after, "after %s: TTL()=%d, IP_MULTICAST_TTL=%d", after, p.TTL(), ttl)
	}
	if loop, err := syscall.GetsockoptInt(fd, syscall.IPPROTO_IP, syscall.IP_MULTICAST_LOOP); err == nil && p.Loop() != (loop != 0) {
		if !c12LoopSet[p] {
			// the constructor's value, never touched by SetLoop since
			c.SoftFailf("getter-differs-from-kernel/Loop/construction", "after %s (SetLoop never called): Loop()=%v, IP_MULTICAST_LOOP=%d", after, p.Loop(), loop)
		} else {
			c.Failf("getter-differs-from-kernel/Loop/after-SetLoop", "after %s: Loop()=%v, IP_MULTICAST_LOOP=%d", after, p.Loop(), loop)
		}
	}
	if ifa, err := syscall.GetsockoptInet4Addr(fd, syscall.IPPROTO_IP, syscall.IP_MULTICAST_IF); err == nil {
		_, oip := p.Outbound()
		if oip.IsValid() && oip.As4() != ifa {
			c.Failf("getter-differs-from-kernel/Outbound/"+after, "after %s: Outbound() ip=%v, IP_MULTICAST_IF=%v", after, oip, net.IP(ifa[:]))
		}
	}
	if oif, oip := p.Outbound(); oif != nil {
		// an outbound interface is reported: the kernel's IP_MULTICAST_IF is one of that interface's addresses, and
		// the reported address is one too (not the unspecified address, which means "no interface chosen")
		if ifa, err := syscall.GetsockoptInet4Addr(fd, syscall.IPPROTO_IP, syscall.IP_MULTICAST_IF); err == nil {
			mine := false
			if addrs, aerr := oif.Addrs(); aerr == nil {
				for _, a := range addrs {
					if n, ok := a.(*net.IPNet); ok && n.IP.To4() != nil && net.IP(ifa[:]).Equal(n.IP) {
						mine = true
					}
				}
				if !mine {
					c.Failf("getter-differs-from-kernel/Outbound/interface/"+after, "after %s: Outbound() reports interface %s (ip %v), the kernel's IP_MULTICAST_IF is %v, which is no address of that interface", after, oif.Name, oip, net.IP(ifa[:]))
				}
			}
		}
		c.Count("outbound_interface_comparisons", 1)
	}
	c.Count("getter_kernel_comparisons", 4)
}

// ---------------------------------------------------------------- multicast peer: membership

type c12Group struct {
	mode    int // 0 none, 1 exclude (any-source join), 2 include (source joins)
	blocked map[string]bool
	sources map[string]bool
}

func (g *c12Group) delivers(src string) bool {
	switch g.mode {
	case 1:
		return !g.blocked[src]
	case 2:
		return g.sources[src]
	}
	return false
}

func c12Peer(c *vf.Case) {
	r := c.Rng
	ifname, ifip, ok := mcastIface()
	ioc := sonic.MustIO()
	defer ioc.Close()
	srcIP := net.IP(ifip[:]).String()
	// bind form
	forms := []string{"", ":0"}
	if ok {
		forms = append(forms, srcIP+":0", "224.0.3."+fmt.Sprint(r.Range(1, 200))+":0")
	}
	forms = append(forms, "localhost:0")
	form := forms[r.Intn(len(forms))]
	p, err := multicast.NewUDPPeer(ioc, "udp", form)
	if err != nil {
		c.Failf("udppeer-constructor/"+form, "NewUDPPeer(%q): %v", form, err)
		return
	}
	defer p.Close()
	defer delete(c12LoopSet, p)
	c.Logf("NewUDPPeer(%q) -> %v (multicast interface %s %s)", form, p.LocalAddr(), ifname, srcIP)
	c.Cover("bind_forms", "udppeer "+strings.Split(form, ":")[0]+":…")
	c12CheckGetters(c, p, "construction")
	// setters
	for i := 0; i < r.Range(1, 6) && !c.Failed(); i++ {
		switch r.Intn(4) {
		case 0:
			v := r.Bool()
			if err := p.SetLoop(v); err == nil {
				c12LoopSet[p] = true
				c12CheckGetters(c, p, "SetLoop")
			}
		case 1:
			v := uint8(r.Intn(256))
			if err := p.SetTTL(v); err == nil {
				c12CheckGetters(c, p, "SetTTL")
			}
		case 2:
			if ok {
				if err := p.SetOutboundIPv4(ifname); err == nil {
					c12CheckGetters(c, p, "SetOutboundIPv4")
				}
			}
		default:
			c12CheckGetters(c, p, "idle")
		}
	}
	if c.Failed() {
		return
	}
	wild := form == "" || form == ":0"
	if !ok || !wild {
		// unicast traffic only: datagram fidelity + SetAsyncReadBuffer through the peer's own paths
		c12PeerUnicast(c, ioc, p)
		if !c.Failed() {
			c12TwoPeersOneBatch(c, ioc, p.LocalAddr().Port)
		}
		c.NonTrivial(fmt.Sprintf("peer-unicast/%s", strings.Split(form, ":")[0]))
		if !ok {
			c.Count("membership_skipped_no_multicast_interface", 1)
		}
		return
	}
	// membership against traffic. The peer is bound to INADDR_ANY:port; a raw sender on the multicast interface.
	port := p.LocalAddr().Port
	snd, _, err := rawpeer.UDP4(ifip)
	if err != nil {
		c.Failf("harness-setup", "%v", err)
		return
	}
	defer syscall.Close(snd)
	_ = syscall.SetsockoptInet4Addr(snd, syscall.IPPROTO_IP, syscall.IP_MULTICAST_IF, ifip)
	_ = syscall.SetsockoptInt(snd, syscall.IPPROTO_IP, syscall.IP_MULTICAST_LOOP, 1)
	rawpeer.SetBufs(p.NextLayer().RawFd(), 0, 4<<20)
	groups := []string{fmt.Sprintf("224.0.7.%d", r.Range(1, 250)), fmt.Sprintf("224.0.8.%d", r.Range(1, 250)), fmt.Sprintf("239.1.%d.%d", r.Range(1, 250), r.Range(1, 250))}
	model := map[string]*c12Group{}
	for _, g := range groups {
		model[g] = &c12Group{blocked: map[string]bool{}, sources: map[string]bool{}}
	}
	other := "10.9.9.9"
	gen := r.U64()
	seq := uint32(0)
	transitions := 0
	probe := func(label string) {
		if c.Failed() {
			return
		}
		// one datagram to every group, then the fence
		want := map[uint32]string{}
		for gi, g := range groups {
			var ga [4]byte
			copy(ga[:], net.ParseIP(g).To4())
			d := c12Stamp(uint32(gi), seq, r.Range(c12Hdr, 200), gen)
			if err := syscall.Sendto(snd, d, 0, &syscall.SockaddrInet4{Addr: ga, Port: port}); err != nil {
				c.Failf("harness-setup", "multicast sendto %s: %v", g, err)
				return
			}
			if model[g].delivers(srcIP) {
				want[seq] = g
			}
			seq++
		}
		fence := c12Stamp(0xFE, seq, 24, gen)
		seq++
		if err := syscall.Sendto(snd, fence, 0, &syscall.SockaddrInet4{Addr: ifip, Port: port}); err != nil {
			c.Failf("harness-setup", "fence sendto: %v", err)
			return
		}
		got := map[uint32]bool{}
		for {
			buf := make([]byte, 512)
			calls := 0
			var n int
			var from netip.AddrPort
			var rerr error
			p.AsyncRead(buf, func(e error, k int, a netip.AddrPort) { calls++; rerr, n, from = e, k, a })
			if !pollUntil(ioc, func() bool { return calls > 0 }, 5*time.Second) {
				c.Failf("fence-datagram-never-read", "%s: the unicast fence datagram was not delivered to the peer within 5 s", label)
				return
			}
			if rerr != nil || n < c12Hdr {
				c.Failf("multicast-read-error", "%s: err=%v n=%d", label, rerr, n)
				return
			}
			if from.Addr().As4() != ifip {
				c.Failf("datagram-sender-address-differs", "%s: datagram from %s reported as coming from %v", label, srcIP, from)
				return
			}
			sid, sq := binary.BigEndian.Uint32(buf[4:]), binary.BigEndian.Uint32(buf[8:])
			if sid == 0xFE {
				break
			}
			if got[sq] {
				c.Failf("multicast-datagram-duplicated", "%s: datagram #%d delivered twice", label, sq)
				return
			}
			got[sq] = true
			if g, okw := want[sq]; !okw {
				gi := int(sid)
				gname := "?"
				if gi < len(groups) {
					gname = groups[gi]
				}
				st := model[gname]
				c.Failf("multicast-delivered-although-not-member", "%s: a datagram sent to %s was delivered although the peer %s", label, gname, c12Why(st, srcIP))
				return
			} else {
				_ = g
			}
			c.Count("positive_delivery_checks", 1)
		}
		for sq, g := range want {
			if !got[sq] {
				c.Failf("multicast-not-delivered-although-member", "%s: the datagram sent to %s was not delivered before the fence although the peer is a member (%s)", label, g, c12Why(model[g], srcIP))
				return
			}
		}
		c.Count("negative_delivery_checks", len(groups)-len(want))
		c.Count("membership_probes", 1)
	}
	probe("initial (no membership)")
	steps := r.Range(4, 30)
	for s := 0; s < steps && !c.Failed(); s++ {
		g := groups[r.Intn(len(groups))]
		st := model[g]
		src := srcIP
		if r.Chance(1, 2) {
			src = []string{other, "10.9.9.8", "198.51.100.7"}[r.Intn(3)]
		}
		var err error
		op := ""
		pick := r.Intn(8)
		if st.mode == 2 && r.Chance(1, 2) {
			pick = []int{2, 4}[r.Intn(2)] // keep working on source lists once a group is source-specific
		}
		// Linux switches the filter mode of a membership with an empty source list as a side effect of a
		// source-specific call, even when that call then fails (ip_mc_source: "allow mode switches for empty-set
		// filters"). That is kernel behaviour, not the library's: such mixed calls are not generated.
		if (pick == 2 && st.mode == 1) || (pick == 4 && st.mode != 2) || ((pick == 5 || pick == 6) && st.mode == 2) {
			pick = 7
		}
		switch pick {
		case 0:
			op = "Join(" + g + ")"
			if err = p.Join(multicast.IP(g)); err == nil {
				if st.mode == 1 {
					// joining a group that is already joined (the kernel normally refuses it): whatever the call returns,
					// it is not an UnblockSource - sources blocked on this membership stay blocked
					c.Count("joins_of_an_already_joined_group_that_succeeded", 1)
				} else {
					st.mode, st.blocked, st.sources = 1, map[string]bool{}, map[string]bool{}
				}
			}
		case 1:
			op = "JoinOn(" + g + "," + ifname + ")"
			if err = p.JoinOn(multicast.IP(g), multicast.InterfaceName(ifname)); err == nil {
				if st.mode != 1 {
					st.mode, st.blocked, st.sources = 1, map[string]bool{}, map[string]bool{}
				}
			}
		case 2:
			op = "JoinSource(" + g + "," + src + ")"
			if err = p.JoinSource(multicast.IP(g), multicast.SourceIP(src)); err == nil {
				if st.mode != 2 {
					st.mode, st.blocked, st.sources = 2, map[string]bool{}, map[string]bool{}
				}
				st.sources[src] = true
			}
		case 3:
			op = "Leave(" + g + ")"
			if err = p.Leave(multicast.IP(g)); err == nil {
				st.mode, st.blocked, st.sources = 0, map[string]bool{}, map[string]bool{}
			}
		case 4:
			op = "LeaveSource(" + g + "," + src + ")"
			if err = p.LeaveSource(multicast.IP(g), multicast.SourceIP(src)); err == nil {
				delete(st.sources, src)
				if st.mode == 2 && len(st.sources) == 0 {
					st.mode = 0
				}
			}
		case 5:
			op = "BlockSource(" + g + "," + src + ")"
			if err = p.BlockSource(multicast.IP(g), multicast.SourceIP(src)); err == nil {
				st.blocked[src] = true
			}
		case 6:
			op = "UnblockSource(" + g + "," + src + ")"
			if err = p.UnblockSource(multicast.IP(g), multicast.SourceIP(src)); err == nil {
				delete(st.blocked, src)
			}
		default:
			op = "SetAsyncReadBuffer"
			c12AsyncReadBuffer(c, ioc, p, snd, ifip, port, gen, &seq)
		}
		c.Logf("%s -> %v", op, err)
		if err == nil && op != "SetAsyncReadBuffer" {
			transitions++
			c.Cover("membership_transitions", strings.Split(op, "(")[0])
		}
		if r.Chance(2, 3) {
			probe("after " + op)
		}
	}
	probe("final")
	c12CheckGetters(c, p, "membership-changes")
	if transitions > 0 {
		c.NonTrivial(fmt.Sprintf("peer-membership/%d/%d", transitions, steps))
	}
}

func c12Why(st *c12Group, src string) string {
	switch st.mode {
	case 0:
		return "has not joined it (or has left it)"
	case 1:
		if st.blocked[src] {
			return "has blocked source " + src
		}
		return "joined it (any source)"
	default:
		return fmt.Sprintf("joined it for sources %v only", vf.SortedKeys(st.sources))
	}
}

// c12AsyncReadBuffer: a pending read lands in the buffer most recently designated.
func c12AsyncReadBuffer(c *vf.Case, ioc *sonic.IO, p *multicast.UDPPeer, snd int, ifip [4]byte, port int, gen uint64, seq *uint32) {
	b1 := bytes.Repeat([]byte{0xE1}, 256)
	b2 := bytes.Repeat([]byte{0xE2}, 256)
	calls := 0
	var n int
	p.AsyncRead(b1, func(e error, k int, _ netip.AddrPort) { calls++; n = k })
	if calls > 0 {
		return // something was already queued: completed inline into b1, nothing to learn
	}
	p.SetAsyncReadBuffer(b2)
	d := c12Stamp(0xFD, *seq, 40, gen)
	*seq++
	_ = syscall.Sendto(snd, d, 0, &syscall.SockaddrInet4{Addr: ifip, Port: port})
	if !pollUntil(ioc, func() bool { return calls > 0 }, 5*time.Second) {
		c.Failf("datagram-read-never-completed", "a pending read did not complete after SetAsyncReadBuffer")
		return
	}
	if !bytes.Equal(b2[:n], d) {
		c.Failf("read-not-into-most-recent-buffer", "the datagram did not land in the buffer designated by SetAsyncReadBuffer")
		return
	}
	for _, v := range b1 {
		if v != 0xE1 {
			c.Failf("read-wrote-into-replaced-buffer", "the buffer replaced by SetAsyncReadBuffer was written")
			return
		}
	}
	c.Count("buffer_switches", 1)
}

// c12TwoPeersOneBatch: two peers on one IO, each with an asynchronous read parked; one datagram for each arrives
// before the loop runs, so both are in one poll batch. The callback of whichever is dispatched first drains the
// OTHER peer with a blocking Read. The other peer's readiness was already harvested: its handler then finds the
// socket empty, and its parked read must simply stay parked (no completion without a datagram) and complete, once,
// with the next datagram sent to it.
func c12TwoPeersOneBatch(c *vf.Case, ioc *sonic.IO, otherPort int) {
	mk := func() (*multicast.UDPPeer, int) {
		p, err := multicast.NewUDPPeer(ioc, "udp", "127.0.0.1:0")
		if err != nil {
			c.Failf("harness-setup", "NewUDPPeer: %v", err)
			return nil, 0
		}
		return p, p.LocalAddr().Port
	}
	a, aport := mk()
	if a == nil {
		return
	}
	defer a.Close()
	b, bport := mk()
	if b == nil {
		return
	}
	defer b.Close()
	if aport == bport || aport == otherPort || bport == otherPort {
		// both peers set SO_REUSEPORT, and the kernel's automatic port choice may then hand the second one the port the
		// first (or the case's own peer, still open) already holds (seen once in several thousand cases): which socket receives a datagram is
		// then the kernel's choice, and the scenario says nothing
		c.Count("two_peer_probes_skipped_same_automatic_port", 1)
		return
	}
	snd, _, err := rawpeer.UDP4([4]byte{127, 0, 0, 1})
	if err != nil {
		c.Failf("harness-setup", "%v", err)
		return
	}
	defer syscall.Close(snd)
	peers := []*multicast.UDPPeer{a, b}
	names := []string{"A", "B"}
	calls := [2]int{}
	var got [2][]byte
	var gerr [2]error
	stolen := [2][]byte{}
	first := -1
	bufs := [2][]byte{make([]byte, 64), make([]byte, 64)}
	for i := range peers {
		i := i
		peers[i].AsyncRead(bufs[i], func(err error, n int, _ netip.AddrPort) {
			calls[i]++
			gerr[i] = err
			if n > 0 && n <= len(bufs[i]) {
				got[i] = append([]byte(nil), bufs[i][:n]...)
			}
			if first < 0 {
				first = i
				o := 1 - i
				tmp := make([]byte, 64)
				if n2, _, rerr := peers[o].Read(tmp); rerr == nil && n2 > 0 {
					stolen[o] = append([]byte(nil), tmp[:n2]...)
				}
			}
		})
	}
	if calls != [2]int{} {
		c.Failf("harness-setup", "reads completed before any datagram was sent")
		return
	}
	send := func(port int, payload string) {
		_ = syscall.Sendto(snd, []byte(payload), 0, &syscall.SockaddrInet4{Addr: [4]byte{127, 0, 0, 1}, Port: port})
	}
	send(aport, "first-for-A")
	send(bport, "first-for-B")
	for it := 0; it < 200 && first < 0; it++ {
		_ = ioc.RunOneFor(time.Millisecond)
	}
	if first < 0 {
		c.Failf("datagram-never-read", "two peers with parked reads, one datagram each: neither read completed")
		return
	}
	for it := 0; it < 20; it++ {
		_, _ = ioc.PollOne()
	}
	o := 1 - first
	c.Logf("two peers in one batch: %s dispatched first and drained %s with a blocking Read (%d bytes taken)", names[first], names[o], len(stolen[o]))
	if string(got[first]) != "first-for-"+names[first] || gerr[first] != nil || calls[first] != 1 {
		c.Failf("datagram-differs/two-peers", "peer %s: calls=%d err=%v payload=%q", names[first], calls[first], gerr[first], got[first])
		return
	}
	if len(stolen[o]) > 0 {
		// the other peer's datagram was taken by the blocking Read: its parked read has nothing to complete with
		c.Count("parked_reads_whose_datagram_was_taken_by_a_blocking_read", 1)
		if calls[o] != 0 {
			c.Failf("read-completed-without-a-datagram", "peer %s: its datagram was consumed by a blocking Read inside another handler of the same batch, yet its parked AsyncRead completed (%d times, err=%v, %d bytes)", names[o], calls[o], gerr[o], len(got[o]))
			return
		}
		port := []int{aport, bport}[o]
		send(port, "second-for-"+names[o])
		for it := 0; it < 400 && calls[o] == 0; it++ {
			_ = ioc.RunOneFor(time.Millisecond)
		}
		if calls[o] != 1 || gerr[o] != nil || string(got[o]) != "second-for-"+names[o] {
			c.Failf("datagram-completes-no-read", "peer %s: the datagram sent after its readiness was consumed elsewhere completed its parked read %d times (err=%v payload=%q)", names[o], calls[o], gerr[o], got[o])
		}
	} else {
		// the other datagram had not been delivered to its socket yet when the first handler ran: ordinary case
		for it := 0; it < 2000 && calls[o] == 0; it++ {
			_ = ioc.RunOneFor(time.Millisecond)
		}
	}
	if len(stolen[o]) == 0 && (calls[o] != 1 || string(got[o]) != "first-for-"+names[o]) {
		c.Failf("datagram-differs/two-peers", "peer %s: calls=%d err=%v payload=%q", names[o], calls[o], gerr[o], got[o])
	}
	c.Count("two_peer_batches", 1)
}

// c12PeerUnicast: datagram fidelity through the peer's Read/AsyncRead/Write/AsyncWrite with unicast traffic.
func c12PeerUnicast(c *vf.Case, ioc *sonic.IO, p *multicast.UDPPeer) {
	r := c.Rng
	la := p.LocalAddr()
	if la.IP.IsMulticast() {
		return // bound to a group address: no unicast traffic reaches it
	}
	ip := [4]byte{127, 0, 0, 1}
	if v4 := la.IP.To4(); v4 != nil && !v4.IsUnspecified() {
		copy(ip[:], v4)
	}
	peer, pport, err := rawpeer.UDP4(ip)
	if err != nil {
		c.Failf("harness-setup", "%v", err)
		return
	}
	defer syscall.Close(peer)
	// a second destination on the same address, another port: consecutive writes alternate between the two
	peer2, pport2, err := rawpeer.UDP4(ip)
	if err != nil {
		c.Failf("harness-setup", "%v", err)
		return
	}
	defer syscall.Close(peer2)
	peer3, pport3 := -1, 0
	gen := r.U64()
	for i := 0; i < r.Range(3, 20) && !c.Failed(); i++ {
		n := []int{1, 2, 1472, 1473, 8192, 65507}[r.Intn(6)]
		if r.Bool() {
			n = r.Range(1, 3000)
		}
		d := c12Stamp(1, uint32(i), n, gen)
		bufSize := []int{1, 100, 1472, 70000}[r.Intn(4)]
		buf := make([]byte, bufSize)
		if r.Bool() {
			// read direction
			if err := syscall.Sendto(peer, d, 0, &syscall.SockaddrInet4{Addr: ip, Port: la.Port}); err != nil {
				continue
			}
			calls := 0
			var k int
			var from netip.AddrPort
			var rerr error
			saved := ioc.Dispatched
			if r.Chance(1, 3) {
				ioc.Dispatched = sonic.MaxCallbackDispatch
			}
			p.AsyncRead(buf, func(e error, kk int, a netip.AddrPort) { calls++; rerr, k, from = e, kk, a })
			ioc.Dispatched = saved
			if !pollUntil(ioc, func() bool { return calls > 0 }, 3*time.Second) {
				c.Failf("datagram-read-never-completed", "peer AsyncRead did not complete")
				return
			}
			want := min(n, bufSize)
			if rerr != nil || k != want || !bytes.Equal(buf[:k], d[:k]) {
				c.Failf("datagram-length-differs", "peer read of a %d-byte datagram into %d bytes: err=%v n=%d want %d", n, bufSize, rerr, k, want)
				return
			}
			if int(from.Port()) != pport || from.Addr().As4() != ip {
				c.Failf("datagram-sender-address-differs", "datagram from %v:%d reported as coming from %v", net.IP(ip[:]), pport, from)
				return
			}
			c.Count("datagrams_verified", 1)
		} else {
			dstFd, dstPort, otherFd := peer, pport, peer2
			if r.Bool() {
				dstFd, dstPort, otherFd = peer2, pport2, peer
			}
			to := netip.AddrPortFrom(netip.AddrFrom4(ip), uint16(dstPort))
			if ip == [4]byte{127, 0, 0, 1} && r.Chance(1, 3) {
				// the destination as the net package hands it out: an IPv4-mapped IPv6 address (::ffff:127.0.0.2), to a
				// receiver on another loopback address than the one "this host" resolves to
				if peer3 < 0 {
					peer3, pport3, err = rawpeer.UDP4([4]byte{127, 0, 0, 2})
					if err != nil {
						c.Failf("harness-setup", "%v", err)
						return
					}
					defer func() { syscall.Close(peer3) }()
				}
				dstFd, dstPort, otherFd = peer3, pport3, peer
				to = (&net.UDPAddr{IP: net.IPv4(127, 0, 0, 2), Port: pport3}).AddrPort()
				c.Count("writes_to_an_ipv4_mapped_destination", 1)
			}
			calls := 0
			var werr error
			var wn int
			if r.Bool() {
				wn, werr = p.Write(d, to)
				calls = 1
			} else {
				saved := ioc.Dispatched
				if r.Chance(1, 3) {
					ioc.Dispatched = sonic.MaxCallbackDispatch
				}
				p.AsyncWrite(d, to, func(e error, k int) { calls++; werr, wn = e, k })
				ioc.Dispatched = saved
				pollUntil(ioc, func() bool { return calls > 0 }, 3*time.Second)
			}
			if calls != 1 || werr != nil || wn != len(d) {
				c.Failf("datagram-write-failed", "peer write of %d bytes: calls=%d err=%v n=%d", len(d), calls, werr, wn)
				return
			}
			rb := make([]byte, 70000)
			rn := -1
			for t := 0; t < 1000; t++ {
				k, _, err := syscall.Recvfrom(dstFd, rb, 0)
				if err == nil {
					rn = k
					break
				}
				if k2, _, err2 := syscall.Recvfrom(otherFd, rb, 0); err2 == nil {
					c.Failf("datagram-written-to-wrong-destination", "a %d-byte peer write addressed to port %d arrived (%d bytes) at the other port of the same address", len(d), dstPort, k2)
					return
				}
				rawpeer.WaitReadable(dstFd, 2)
			}
			if rn != len(d) || !bytes.Equal(rb[:rn], d) {
				c.Failf("datagram-written-differs", "peer wrote %d bytes, the destination received %d", len(d), rn)
				return
			}
			c.Count("writes_verified", 1)
		}
	}
}

// c12SendBufferFull: a datagram write that the kernel refuses for now (EAGAIN: the socket's send buffer is charged with
// datagrams waiting for a neighbour that does not answer) is parked and later emits exactly one datagram with exactly
// the caller's bytes, and completes exactly once - never with would-block. The situation is built with a veth pair in
// the case's own network namespace: datagrams to an unresolvable neighbour sit in the ARP queue (about half a
// second here) and stay charged to the sending socket, whose send buffer is at the minimum.
func c12SendBufferFull(c *vf.Case, usePeer bool) {
	sh := func(cmd string) error { return exec.Command("/bin/sh", "-c", cmd).Run() }
	if err := sh("ip link add vfv0 type veth peer name vfv1 && ip addr add 10.77.0.1/24 dev vfv0 && ip link set vfv0 up && ip link set vfv1 up"); err != nil {
		_ = sh("ip link del vfv0 2>/dev/null")
		c.Logf("send-buffer-full probe skipped: cannot create a veth pair here (%v)", err)
		c.Count("send_buffer_full_probes_skipped", 1)
		return
	}
	defer sh("ip link del vfv0")
	_ = os.WriteFile("/proc/sys/net/ipv4/neigh/vfv0/retrans_time_ms", []byte("250"), 0o644)
	_ = os.WriteFile("/proc/sys/net/ipv4/neigh/vfv0/mcast_solicit", []byte("2"), 0o644)
	ioc := sonic.MustIO()
	defer ioc.Close()
	rfd, rport, err := rawpeer.UDP4([4]byte{10, 77, 0, 1})
	if err != nil {
		c.Logf("send-buffer-full probe skipped: %v", err)
		c.Count("send_buffer_full_probes_skipped", 1)
		return
	}
	defer syscall.Close(rfd)
	var fd int
	var write func(b []byte, port int, ip [4]byte, cb func(error, int))
	kind := "packet-conn"
	if usePeer {
		kind = "udp-peer"
		p, err := multicast.NewUDPPeer(ioc, "udp", "10.77.0.1:0")
		if err != nil {
			c.Failf("harness-setup", "NewUDPPeer on the veth address: %v", err)
			return
		}
		defer p.Close()
		fd = p.NextLayer().RawFd()
		write = func(b []byte, port int, ip [4]byte, cb func(error, int)) {
			p.AsyncWrite(b, netip.AddrPortFrom(netip.AddrFrom4(ip), uint16(port)), cb)
		}
	} else {
		p, err := sonic.NewPacketConn(ioc, "udp", "10.77.0.1:0")
		if err != nil {
			c.Failf("harness-setup", "NewPacketConn on the veth address: %v", err)
			return
		}
		defer p.Close()
		fd = p.RawFd()
		write = func(b []byte, port int, ip [4]byte, cb func(error, int)) {
			p.AsyncWriteTo(b, &net.UDPAddr{IP: net.IPv4(ip[0], ip[1], ip[2], ip[3]), Port: port}, func(err error) {
				k := len(b) // the packet conn's completion carries no count
				if err != nil {
					k = 0
				}
				cb(err, k)
			})
		}
	}
	rawpeer.SetBufs(fd, 1, 0) // the kernel's minimum
	// a few datagrams through the library, then raw sends on the same descriptor until the kernel says EAGAIN
	stuckDone := 0
	for i := 0; i < 2; i++ {
		write(make([]byte, 1300), 9, [4]byte{10, 77, 0, 77}, func(error, int) { stuckDone++ })
	}
	full := false
	for i := 0; i < 64 && !full; i++ {
		err := syscall.Sendto(fd, make([]byte, 1300), syscall.MSG_DONTWAIT, &syscall.SockaddrInet4{Addr: [4]byte{10, 77, 0, 77}, Port: 9})
		full = err == syscall.EAGAIN
	}
	if !full {
		c.Logf("send-buffer-full probe skipped: the kernel never refused a datagram")
		c.Count("send_buffer_full_probes_skipped", 1)
		return
	}
	payload := make([]byte, c.Rng.Range(1, 1200))
	gen := c.Rng.U64()
	vf.GenFill(payload, gen, 0)
	calls, n := 0, 0
	var werr error
	write(payload, rport, [4]byte{10, 77, 0, 1}, func(err error, nn int) { calls++; werr, n = err, nn })
	inline := calls
	c.Logf("send-buffer-full/%s: %d-byte write started with the send buffer full: %d completions inside the call (err=%v)", kind, len(payload), calls, werr)
	if calls > 0 && errors.Is(werr, sonicerrors.ErrWouldBlock) {
		c.Failf("write-completed-with-would-block/"+kind, "a %d-byte datagram write started while the socket's send buffer was full completed with %v instead of being parked", len(payload), werr)
		return
	}
	deadline := time.Now().Add(8 * time.Second)
	for calls == 0 && time.Now().Before(deadline) {
		_, _ = ioc.PollOne()
		time.Sleep(2 * time.Millisecond)
	}
	for i := 0; i < 20; i++ {
		_, _ = ioc.PollOne()
	}
	c.Count("send_buffer_full_probes", 1)
	if inline == 0 {
		c.Count("datagram_writes_parked_on_a_full_send_buffer", 1)
	}
	if calls != 1 || werr != nil || n != len(payload) {
		c.Failf("parked-datagram-write-completion/"+kind, "a %d-byte datagram write started while the socket's send buffer was full: callback invoked %d times, err=%v n=%d", len(payload), calls, werr, n)
		return
	}
	var got [][]byte
	for {
		d := make([]byte, 2048)
		k, _, err := syscall.Recvfrom(rfd, d, syscall.MSG_DONTWAIT)
		if err != nil || k < 0 {
			break
		}
		got = append(got, d[:k])
	}
	if len(got) != 1 || !bytes.Equal(got[0], payload) {
		c.Failf("parked-datagram-write-differs/"+kind, "the destination received %d datagrams for one %d-byte write parked on a full send buffer (first: %d bytes, equal to the caller's bytes: %v)", len(got), len(payload), len(append(got, nil)[0]), len(got) > 0 && bytes.Equal(got[0], payload))
	}
}

// c12FailedWriteKeepsRead: a write the kernel refuses outright (a datagram larger than any UDP datagram: EMSGSIZE)
// fails, once, and costs the object nothing else: the read that was parked before it still completes, once, with the
// next datagram.
func c12FailedWriteKeepsRead(c *vf.Case, usePeer bool) {
	ioc := sonic.MustIO()
	defer ioc.Close()
	snd, sport, err := rawpeer.UDP4([4]byte{127, 0, 0, 1})
	if err != nil {
		c.Failf("harness-setup", "%v", err)
		return
	}
	defer syscall.Close(snd)
	kind := "packet-conn"
	rcalls, wcalls, rn := 0, 0, 0
	var rerr, werr error
	buf := make([]byte, 64)
	var to *syscall.SockaddrInet4
	if usePeer {
		kind = "udp-peer"
		p, err := multicast.NewUDPPeer(ioc, "udp", "127.0.0.1:0")
		if err != nil {
			c.Failf("harness-setup", "NewUDPPeer: %v", err)
			return
		}
		defer p.Close()
		to = &syscall.SockaddrInet4{Addr: [4]byte{127, 0, 0, 1}, Port: p.LocalAddr().Port}
		p.AsyncRead(buf, func(err error, n int, _ netip.AddrPort) { rcalls++; rerr, rn = err, n })
		p.AsyncWrite(make([]byte, 70000), netip.AddrPortFrom(netip.AddrFrom4([4]byte{127, 0, 0, 1}), uint16(sport)), func(err error, n int) { wcalls++; werr = err })
	} else {
		pc, err := sonic.ListenPacket(ioc, "udp", "127.0.0.1:0")
		if err != nil {
			c.Failf("harness-setup", "ListenPacket: %v", err)
			return
		}
		defer pc.Close()
		sa, _ := syscall.Getsockname(pc.RawFd())
		to = sa.(*syscall.SockaddrInet4)
		pc.AsyncReadFrom(buf, func(err error, n int, _ net.Addr) { rcalls++; rerr, rn = err, n })
		pc.AsyncWriteTo(make([]byte, 70000), &net.UDPAddr{IP: net.IPv4(127, 0, 0, 1), Port: sport}, func(err error) { wcalls++; werr = err })
	}
	pollUntil(ioc, func() bool { return wcalls > 0 }, 2*time.Second)
	c.Logf("failed-write-keeps-read/%s: 70000-byte write -> callback %d times err=%v; parked read so far %d times", kind, wcalls, werr, rcalls)
	if wcalls != 1 || werr == nil {
		c.Failf("oversize-datagram-write/"+kind, "a 70000-byte datagram write: callback invoked %d times, err=%v (one failing completion expected)", wcalls, werr)
		return
	}
	if rcalls != 0 {
		c.Failf("read-completed-without-a-datagram/"+kind, "the parked read completed (err=%v n=%d) when an unrelated write on the same object failed", rerr, rn)
		return
	}
	payload := []byte("after the failed write")
	_ = syscall.Sendto(snd, payload, 0, to)
	pollUntil(ioc, func() bool { return rcalls > 0 }, 3*time.Second)
	for i := 0; i < 10; i++ {
		_, _ = ioc.PollOne()
	}
	c.Count("parked_reads_checked_after_a_failed_write", 1)
	if rcalls != 1 || rerr != nil || !bytes.Equal(buf[:max(rn, 0)], payload) {
		c.Failf("datagram-read-never-completed/after-a-failed-write/"+kind, "a read parked before a failing write on the same object: after the next datagram arrived its callback had run %d times (err=%v n=%d)", rcalls, rerr, rn)
	}
}

func runC12(c *vf.Case) {
	if c.Index%200 == 57 || c.Index%200 == 158 {
		c12FailedWriteKeepsRead(c, c.Index%200 == 57)
		if c.Failed() {
			return
		}
	}
	if c.Index%200 == 7 || c.Index%200 == 108 {
		c12SendBufferFull(c, c.Index%200 == 108)
		if c.Failed() {
			return
		}
	}
	if c.Index%3 == 0 {
		c12PacketConn(c)
	} else {
		c12Peer(c)
	}
	_ = unix.POLLIN
}

func init() {
	register(&vf.Check{
		ID:        "C12",
		Technique: "runtime monitor: stamped datagrams verified on both ends with raw sockets, kernel state (getsockname/getsockopt on RawFd()) compared with every getter, membership model for the multicast peer with fence datagrams deciding non-delivery without timeouts",
		Rule: "a read parked before a 70000-byte write that fails must still complete with the next datagram (packet conn and peer, two probes per 200 cases); a second packet conn of the IO context writes to a sink whenever a write of the first is parked; " +
			"further senders may sit on another loopback address with the first sender's port; two probes per 200 cases park a packet-conn / multicast-peer write on a full send buffer (veth pair in the case's namespace, unresolvable neighbour) and require one datagram, one completion, never would-block; " +
			"cases = (1/3) packet conn on bind forms {\"\", :0, 127.0.0.1:0, localhost:0}: bursts of 1-64 datagrams from 1-3 raw senders with sizes {1,2,17,1472,1473,8192,65507,random}, read with buffers smaller/equal/larger through ReadFrom / AsyncReadFrom (inline, forced deferred, armed before the burst), and WriteTo / AsyncWriteTo verified at the raw destination (half of them through one *net.UDPAddr updated in place); (2/3) multicast peer on bind forms {\"\", :0, interface address, group address, localhost:0}: getters vs getsockname/IP_MULTICAST_TTL/LOOP/IF after construction and after every SetLoop/SetTTL/SetOutboundIPv4 (whenever an outbound interface is reported, the kernel's IP_MULTICAST_IF must be one of that interface's addresses), unicast fidelity through Read/AsyncRead/Write/AsyncWrite, two peers with parked reads in one poll batch where the first handler drains the other peer with a blocking Read, and on wildcard binds random sequences (4-30) of Join/JoinOn/JoinSource/Leave/LeaveSource/BlockSource/UnblockSource/SetAsyncReadBuffer over 3 groups with a probe (one datagram per group from the interface address, then a unicast fence) after two thirds of the steps; " +
			"non-trivial = every packet-conn case and every peer case with at least one membership transition or unicast exchange; distinct = (kind, bind form, transitions)",
		Assumptions: []string{
			"zero-length datagrams are outside the statement",
			"ordering between different senders is not required; per sender loopback preserves it",
			"this sandbox has one multicast-capable interface and therefore one real source address: source filters are tested against it and against an address that never sends (10.9.9.9)",
			"a unicast datagram sent after a multicast datagram from the same socket to the same receiving socket is queued after it (fence)",
			"source-specific calls are not issued on any-source memberships and vice versa: Linux switches the filter mode of an empty-list membership as a side effect even when the call fails (kernel behaviour)",
			"the membership model only changes when the call returned nil (kernel refusals such as mixing any-source and source-specific joins leave it unchanged)",
		},
		RequireCounters: []string{"datagrams_verified", "getter_kernel_comparisons"},
		NumCases:        func(tier, build string) int { return vf.Tiered(tier, 1000, 150000) },
		Floor:           func(tier string) int { return vf.Tiered(tier, 50, 500) },
		Run:             runC12,
	})
}
