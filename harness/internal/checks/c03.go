package checks

import (
	"errors"
	"fmt"
	"os"
	"os/signal"
	"runtime"
	"syscall"
	"time"

	"github.com/talostrading/sonic/sonicerrors"
	"golang.org/x/sys/unix"

	"verif/internal/sim"
	"verif/internal/vf"

	"github.com/talostrading/sonic"
)

// C03 - Pending() accounting, RunPending termination, EINTR, PollOne's return value.
//
// Oracle: the C01 ledger extended with timers and posts gives the shadow count that Pending() must equal
// whenever no handler is executing; a handler-invocation counter per PollOne call; the poll(2) readiness
// oracle for "nothing was ready"; bounded-progress probes for RunPending.

func c03Compare(c *vf.Case, w *sim.World, after string) {
	if c.Failed() {
		return
	}
	got, want := w.IOC.Pending(), int64(w.ShadowPending())
	c.Count("pending_comparisons", 1)
	c.Cover("ledger_values_seen", fmt.Sprint(want))
	if got != want {
		detail := ""
		for _, op := range w.InFlight() {
			detail += fmt.Sprintf(" op%d:%s/%s", op.ID, op.O, op.Kind)
		}
		c.Failf("pending-differs-after-"+after, "after %s: Pending()=%d, in flight by the ledger: %d (deferred operations:%s; armed timers: %d; posted handlers not yet run: %d)",
			after, got, want, detail, w.ArmedTimers, w.PostsQueued)
	}
}

func c03Poll(c *vf.Case, w *sim.World) {
	timersBefore, postsBefore := w.ArmedShort, w.PostsQueued
	n, err, ready := w.Poll()
	h := w.HandlersInPoll
	if h > 0 && (n <= 0 || err != nil) {
		c.Failf("pollone-dispatched-but-reported-nothing", "PollOne ran %d handler(s) but returned n=%d err=%v", h, n, err)
	}
	if err == nil && n <= 0 {
		c.Failf("pollone-success-with-zero-count", "PollOne returned n=%d with a nil error", n)
	}
	if err != nil && !errors.Is(err, sonicerrors.ErrTimeout) {
		c.Failf("pollone-unexpected-error", "PollOne returned %v", err)
	}
	if h == 0 && ready == 0 && timersBefore == 0 && postsBefore == 0 && err == nil {
		c.Failf("pollone-success-with-nothing-ready", "PollOne returned n=%d, nil although poll(2) showed nothing ready, no short timer was armed, no post was queued and no handler ran", n)
	}
	c.Count("pollone_calls", 1)
	c03Compare(c, w, "PollOne")
}

func c03Script(c *vf.Case, w *sim.World) {
	r := c.Rng
	kinds := []sim.Kind{sim.KConnDialed, sim.KConnAccepted, sim.KAdapter, sim.KFifoR, sim.KFifoW, sim.KUDP, sim.KListener, sim.KConnUDP}
	for i := 0; i < r.Range(2, 5); i++ {
		k := kinds[r.Intn(len(kinds))]
		// an adapter's write parks in the Go netpoller instead of returning would-block: no shrunken buffers for it
		if _, err := w.NewObj(k, r.Bool() && k != sim.KAdapter); err != nil {
			c.Failf("harness-setup", "cannot create %v: %v", k, err)
			return
		}
	}
	var timers []*sim.Tmr
	pickOpen := func(pred func(o *sim.Obj) bool) *sim.Obj {
		var cands []*sim.Obj
		for _, o := range w.Objs {
			if !o.Closed && !o.Closing && (pred == nil || pred(o)) {
				cands = append(cands, o)
			}
		}
		if len(cands) == 0 {
			return nil
		}
		return cands[r.Intn(len(cands))]
	}
	nontrivial := 0
	start := func(forcedAlways bool) {
		o := pickOpen(func(o *sim.Obj) bool { return o.Kind != sim.KRegFile })
		if o == nil {
			return
		}
		beh := sim.BNone
		if r.Chance(1, 4) {
			beh = []sim.Behaviour{sim.BReissue, sim.BCancelSelf, sim.BCloseSelf}[r.Intn(3)]
		}
		forced := forcedAlways || r.Chance(1, 2)
		switch o.Kind {
		case sim.KListener:
			w.StartAccept(o, beh, nil, forced)
		case sim.KUDP:
			w.StartPacket(o, r.Intn(2), 64, beh, nil, forced)
		case sim.KFifoR:
			w.StartStream(o, 0, r.Chance(1, 4), 64, beh, nil, forced)
		case sim.KFifoW:
			w.StartStream(o, 1, r.Chance(1, 4), []int{1, 4096, 9000}[r.Intn(3)], beh, nil, forced)
		default:
			dir := r.Intn(2)
			size := 64
			if dir == 1 && o.Small && r.Bool() {
				size = 300000
			}
			w.StartStream(o, dir, r.Chance(1, 3), size, beh, nil, forced)
		}
	}
	steps := r.Range(10, 50)
	for s := 0; s < steps && !c.Failed(); s++ {
		switch k := r.Intn(20); {
		case k <= 4:
			start(false)
			c03Compare(c, w, "start")
		case k <= 7:
			if o := pickOpen(func(o *sim.Obj) bool { return o.Peer >= 0 || o.Kind == sim.KListener }); o != nil {
				if o.Kind == sim.KListener {
					_ = w.PeerConnect(o)
				} else {
					switch r.Intn(5) {
					case 0:
						w.PeerClose(o)
					case 1:
						w.PeerDrain(o)
					default:
						w.PeerWrite(o, []int{1, 100, 5000}[r.Intn(3)])
					}
				}
			}
		case k == 8:
			if o := pickOpen(func(o *sim.Obj) bool { return o.FD != nil && o.Kind != sim.KRegFile }); o != nil {
				w.Cancel(o)
				nontrivial++
				c03Compare(c, w, "Cancel")
			}
		case k == 9:
			if o := pickOpen(nil); o != nil && r.Chance(1, 2) {
				w.Close(o)
				nontrivial++
				c03Compare(c, w, "Close")
			}
		case k == 10 || k == 11: // timers
			nontrivial++
			switch r.Intn(5) {
			case 0, 1:
				if len(timers) < 4 {
					if tm, err := w.NewTimer(); err == nil {
						timers = append(timers, tm)
					}
				}
				if len(timers) > 0 {
					tm := timers[r.Intn(len(timers))]
					d := 10 * time.Second
					if r.Chance(1, 3) {
						d = time.Duration(r.Range(1, 3)) * time.Millisecond
					}
					c.Logf("  timer arm %v", d)
					_ = w.Arm(tm, d)
					c03Compare(c, w, "timer-arm")
				}
			case 2:
				if len(timers) > 0 {
					c.Logf("  timer cancel")
					w.CancelTimer(timers[r.Intn(len(timers))])
					c03Compare(c, w, "timer-cancel")
				}
			case 3:
				if len(timers) > 0 {
					c.Logf("  timer close")
					w.CloseTimer(timers[r.Intn(len(timers))])
					c03Compare(c, w, "timer-close")
				}
			default:
				if w.ArmedShort > 0 {
					time.Sleep(4 * time.Millisecond) // past the expiry of the short timers
				}
			}
		case k == 12:
			c.Logf("  Post")
			w.Post(nil)
			c03Compare(c, w, "Post")
		case k == 13: // failed registration: descriptor not pollable (regular file at the dispatch limit)
			nontrivial++
			if f, err := w.NewObj(sim.KRegFile, false); err == nil {
				op := w.StartStream(f, r.Intn(2), false, 64, sim.BNone, nil, true)
				if op != nil {
					c.Logf("  regular file started at the dispatch limit: calls=%d err=%v", op.Calls, op.Err)
					c.Count("failed_registration_probes_regular_file", 1)
					if op.Calls == 1 && op.Err != nil {
						c.Cover("failed_registration_errno", fmt.Sprint(op.Err))
					}
				}
				c03Compare(c, w, "failed-registration-regular-file")
				w.Close(f)
				c03Compare(c, w, "Close")
			}
		case k == 14: // failed registration: descriptor closed underneath
			nontrivial++
			if o := pickOpen(func(o *sim.Obj) bool {
				return (o.Kind == sim.KConnDialed || o.Kind == sim.KConnAccepted) && o.Rd == nil && o.Wr == nil
			}); o != nil {
				if r.Bool() {
					// both directions registered first, then the descriptor goes away underneath and the object is
					// closed: every epoll_ctl of the teardown fails, nothing may stay counted
					w.StartStream(o, 0, false, 64, sim.BNone, nil, true)
					w.StartStream(o, 1, false, 64, sim.BNone, nil, true)
					c03Compare(c, w, "start")
					c.Logf("  %s: read and write registered, descriptor closed underneath, then Close", o)
					_ = syscall.Close(o.Raw)
					w.Close(o)
					c.Count("closes_after_descriptor_closed_underneath_with_both_directions", 1)
					c03Compare(c, w, "Close-after-descriptor-closed-underneath")
					break
				}
				if r.Bool() {
					// one direction registered, the descriptor goes away underneath, then the OTHER direction is started
					// at the dispatch limit: modifying the registration fails, that operation completes with the error
					// and is not counted - the first one still is
					dir := r.Intn(2)
					w.StartStream(o, dir, false, 64, sim.BNone, nil, true)
					c03Compare(c, w, "start")
					c.Logf("  %s: one direction registered, descriptor closed underneath, forced start of the other direction", o)
					_ = syscall.Close(o.Raw)
					if op := w.StartStream(o, 1-dir, false, 64, sim.BNone, nil, true); op != nil {
						c.Count("failed_second_registrations_on_a_dead_descriptor", 1)
						if op.Calls == 0 {
							if op.Dir == 0 {
								o.Rd = nil
							} else {
								o.Wr = nil
							}
							op.Calls = -1
						}
					}
					c03Compare(c, w, "failed-second-registration-closed-descriptor")
					w.Close(o)
					c03Compare(c, w, "Close")
					break
				}
				c.Logf("  %s: descriptor closed underneath, then a forced start", o)
				_ = syscall.Close(o.Raw)
				op := w.StartStream(o, r.Intn(2), false, 64, sim.BNone, nil, true)
				if op != nil {
					c.Count("failed_registration_probes_closed_fd", 1)
					if op.Calls == 1 && op.Err != nil {
						c.Cover("failed_registration_errno", fmt.Sprint(op.Err))
					}
					if op.Calls == 0 {
						// registration "succeeded" on a dead descriptor number: nothing to compare, drop the op
						if op.Dir == 0 {
							o.Rd = nil
						} else {
							o.Wr = nil
						}
						op.Calls = -1
					}
				}
				c03Compare(c, w, "failed-registration-closed-descriptor")
				w.Close(o) // closes the (already closed) number again at once, before anything can reuse it
				c03Compare(c, w, "Close")
			}
		default:
			c03Poll(c, w)
		}
	}
	if nontrivial > 0 {
		c.NonTrivial(fmt.Sprintf("n%d/t%d/%d", nontrivial, len(timers), len(w.Ops)))
	}
}

// c03RunPending: k self-completing operations, then RunPending must return exactly when the ledger is empty.
func c03RunPending(c *vf.Case, w *sim.World) {
	r := c.Rng
	k := r.Intn(6)
	for i := 0; i < k; i++ {
		kind := []sim.Kind{sim.KConnDialed, sim.KFifoR, sim.KUDP, sim.KListener, sim.KFifoW}[r.Intn(5)]
		o, err := w.NewObj(kind, false)
		if err != nil {
			c.Failf("harness-setup", "cannot create %v: %v", kind, err)
			return
		}
		// make it ready first, then force the deferred path
		switch kind {
		case sim.KListener:
			_ = w.PeerConnect(o)
			w.StartAccept(o, sim.BNone, nil, true)
		case sim.KUDP:
			w.PeerWrite(o, 16)
			w.StartPacket(o, 0, 64, sim.BNone, nil, true)
		case sim.KFifoW:
			w.StartStream(o, 1, false, 16, sim.BNone, nil, true)
		default:
			w.PeerWrite(o, 16)
			w.StartStream(o, 0, false, 64, sim.BNone, nil, true)
		}
	}
	nt := r.Intn(3)
	for i := 0; i < nt; i++ {
		if tm, err := w.NewTimer(); err == nil {
			_ = w.Arm(tm, time.Duration(r.Range(1, 5))*time.Millisecond)
		}
	}
	np := r.Intn(3)
	for i := 0; i < np; i++ {
		w.Post(nil)
	}
	failed := false
	if r.Chance(1, 4) {
		// a registration that fails must not count
		if f, err := w.NewObj(sim.KRegFile, false); err == nil {
			w.StartStream(f, 0, false, 16, sim.BNone, nil, true)
			failed = true
		}
	}
	want := w.ShadowPending()
	c.Logf("RunPending probe: %d deferred operations, %d timers, %d posts, failed registration=%v (ledger=%d, Pending()=%d)", k, nt, np, failed, want, w.IOC.Pending())
	c.Cover("runpending_probe_ledger_size", fmt.Sprint(want))
	var err error
	key := "runpending-does-not-return-with-empty-ledger"
	if want > 0 {
		key = "runpending-does-not-return-after-all-operations-completed"
	}
	c.Bounded(key, 30*time.Second, func() { err = w.IOC.RunPending() })
	if err != nil {
		c.Failf("runpending-error", "RunPending returned %v", err)
	}
	if left := w.ShadowPending(); left != 0 {
		c.Failf("runpending-returned-early", "RunPending returned while %d operations are still in flight by the ledger", left)
	}
	if got := w.IOC.Pending(); got != 0 {
		c.Failf("pending-differs-after-RunPending", "Pending()=%d after RunPending returned with an empty ledger", got)
	}
	c.Count("runpending_probes", 1)
	c.NonTrivial(fmt.Sprintf("runpending/%d/%d/%d/%v", k, nt, np, failed))
}

var sigOnce = make(chan os.Signal, 64)
var sigInit bool

// c03Signals: the wait is interrupted by a signal delivered to the loop's own thread.
func c03Signals(c *vf.Case, w *sim.World) {
	if !sigInit {
		signal.Notify(sigOnce, syscall.SIGUSR1)
		sigInit = true
	}
	runtime.LockOSThread()
	defer runtime.UnlockOSThread()
	tid := unix.Gettid()
	pid := os.Getpid()
	o, err := w.NewObj(sim.KConnDialed, false)
	if err != nil {
		c.Failf("harness-setup", "%v", err)
		return
	}
	op := w.StartStream(o, 0, false, 64, sim.BNone, nil, false)
	eintr := 0
	for round := 0; round < 3 && !c.Failed(); round++ {
		infinite := c.Rng.Chance(1, 3)
		done := make(chan struct{})
		go func() {
			for i := 0; i < 3; i++ {
				time.Sleep(5 * time.Millisecond)
				select {
				case <-done:
					return
				default:
				}
				_ = unix.Tgkill(pid, tid, syscall.SIGUSR1)
			}
			if infinite {
				// make sure an infinite wait ends: wake the loop through the peer
				time.Sleep(5 * time.Millisecond)
			}
		}()
		t0 := time.Now()
		var rerr error
		if infinite {
			// RunOne has no timeout: the signal (EINTR) is what makes it return
			c.Bounded("runone-not-interrupted-by-signal", 30*time.Second, func() { rerr = w.IOC.RunOne() })
		} else {
			rerr = w.IOC.RunOneFor(200 * time.Millisecond)
		}
		el := time.Since(t0)
		close(done)
		c.Logf("round %d: infinite=%v returned %v after %v (handlers so far: %d)", round, infinite, rerr, el, op.Calls)
		if infinite && rerr != nil {
			// RunOne() has no timeout to report: whatever it returns besides nil here is the interruption reported as an error
			c.Failf("signal-interrupted-wait-reported-as-error", "RunOne() (no timeout) interrupted by SIGUSR1 returned %v", rerr)
		} else if rerr != nil && !errors.Is(rerr, sonicerrors.ErrTimeout) {
			c.Failf("signal-interrupted-wait-reported-as-error", "wait interrupted by SIGUSR1 returned %v", rerr)
		}
		if el < 150*time.Millisecond && op.Calls == 0 {
			eintr++
		}
		c03Compare(c, w, "interrupted-wait")
	}
	c.Count("eintr_observed", eintr)
	// the event made ready afterwards is still delivered
	w.PeerWrite(o, 8)
	for i := 0; i < 50 && op.Calls == 0; i++ {
		w.Poll()
	}
	if op.Calls != 1 {
		c.Failf("event-lost-after-interrupted-wait", "the read did not complete after the interrupted waits (calls=%d)", op.Calls)
	}
	c03Compare(c, w, "after-signals")
	c.Count("signal_cases", 1)
	if eintr > 0 {
		c.NonTrivial(fmt.Sprintf("signals/%d", eintr))
	}
}

// c03ManyReady: many descriptors are ready in the same cycle (k expired timers, k around the size of the poller's event
// batch) - a PollOne that ran handlers reports success, Pending() follows the timers that are still to fire, and a
// final PollOne with nothing left reports the timeout.
func c03ManyReady(c *vf.Case, w *sim.World) {
	k := []int{1, 100, 127, 128, 129, 200, 255, 256, 257, 300}[c.Rng.Intn(10)]
	fired := 0
	var timers []*sonic.Timer
	defer func() {
		for _, t := range timers {
			_ = t.Close()
		}
	}()
	for i := 0; i < k; i++ {
		t, err := sonic.NewTimer(w.IOC)
		if err != nil {
			c.Logf("many-ready: NewTimer %d of %d: %v (probe skipped)", i, k, err)
			c.Count("many_ready_probes_skipped", 1)
			return
		}
		timers = append(timers, t)
		if err := t.ScheduleOnce(time.Millisecond, func() { fired++ }); err != nil {
			c.Failf("harness-setup", "ScheduleOnce: %v", err)
			return
		}
	}
	if got := w.IOC.Pending(); got != int64(k) {
		c.Failf("pending-differs-with-many-timers", "%d timers armed, Pending()=%d", k, got)
		return
	}
	time.Sleep(4 * time.Millisecond) // all of them are due now
	polls := 0
	for guard := 0; fired < k && guard < 4*k+50; guard++ {
		before := fired
		n, err := w.IOC.PollOne()
		polls++
		ran := fired - before
		c.Logf("many-ready: PollOne -> n=%d err=%v, %d timer callbacks ran (%d of %d so far)", n, err, ran, fired, k)
		if ran > 0 && (err != nil || n <= 0) {
			c.Failf("pollone-reports-no-success-although-handlers-ran", "%d expired timers: PollOne ran %d callbacks and returned n=%d err=%v", k, ran, n, err)
			return
		}
		if got := w.IOC.Pending(); got != int64(k-fired) {
			c.Failf("pending-differs-with-many-timers", "%d of %d timers have fired, Pending()=%d", fired, k, got)
			return
		}
		if ran == 0 {
			time.Sleep(time.Millisecond)
		}
	}
	if fired != k {
		c.Failf("expired-timers-not-dispatched", "%d expired timers: only %d callbacks ran in %d PollOne calls", k, fired, polls)
		return
	}
	// nothing is left: PollOne reports the timeout (a stale kernel event may still be reported once or twice: n counts
	// kernel events, see the assumptions)
	quiet := false
	var lastN int
	var lastErr error
	for i := 0; i < 4 && !quiet; i++ {
		lastN, lastErr = w.IOC.PollOne()
		quiet = lastErr != nil && lastN == 0
	}
	if !quiet {
		c.Failf("pollone-success-with-nothing-ready", "after all %d timers fired: four PollOne calls in a row reported success (last: n=%d err=%v)", k, lastN, lastErr)
		return
	}
	c.Count("many_ready_probes", 1)
	c.Cover("many_ready_counts", fmt.Sprintf("%d", k))
}

// c03PostBurst: thousands of handlers are queued before one dispatch, each posts a follow-up while the batch runs;
// Pending() follows Posted() all the way down and RunPending returns.
func c03PostBurst(c *vf.Case, w *sim.World) {
	n := []int{1000, 4096, 4097, 6000, 9000}[c.Rng.Intn(5)]
	first, second := 0, 0
	for i := 0; i < n; i++ {
		_ = w.IOC.Post(func() {
			first++
			_ = w.IOC.Post(func() { second++ })
		})
	}
	if got := w.IOC.Pending(); got != int64(n) {
		c.Failf("pending-differs-after-post-burst", "%d handlers posted, Pending()=%d", n, got)
		return
	}
	for guard := 0; guard < 50 && (first < n || second < n); guard++ {
		_, _ = w.IOC.PollOne()
		want := int64(n-first) + int64(first-second)
		if got := w.IOC.Pending(); got != want {
			c.Failf("pending-differs-after-post-burst", "burst of %d: %d handlers and %d follow-ups have run, Pending()=%d, still queued by the ledger: %d", n, first, second, got, want)
			return
		}
	}
	if first != n || second != n {
		c.Failf("posted-handlers-not-run", "burst of %d handlers that each post a follow-up: %d handlers and %d follow-ups ran within 50 cycles (Pending()=%d)", n, first, second, w.IOC.Pending())
		return
	}
	c.Bounded("runpending-never-returns", 30*time.Second, func() { _ = w.IOC.RunPending() })
	c.Count("post_burst_probes", 1)
}

func runC03(c *vf.Case) {
	w, err := sim.NewWorld(c)
	if err != nil {
		c.Failf("harness-setup", "NewWorld: %v", err)
		return
	}
	defer w.Teardown()
	switch m := c.Index % 10; {
	case m == 7 && c.Index%40 == 7:
		c03ManyReady(c, w)
	case m == 7 && c.Index%40 == 17:
		c03PostBurst(c, w)
	case m == 8:
		c03RunPending(c, w)
	case m == 9 && c.Index%30 == 9:
		c03Signals(c, w)
	case m == 9:
		c03RunPending(c, w)
	default:
		c03Script(c, w)
	}
	c.Count("operations_started", len(w.Ops))
}

func init() {
	register(&vf.Check{
		ID:        "C03",
		Technique: "runtime monitor: shadow ledger (deferred operations + armed timers + posted handlers) compared with IO.Pending() after every top-level step; handler counter and poll(2) oracle against PollOne's return value; bounded-progress probes for RunPending; signals delivered to the loop's thread (tgkill) during RunOneFor/RunOne",
		Rule: "plus two probes: k expired timers ready in one cycle for k in {1,100,127,128,129,200,255,256,257,300} (PollOne's result and Pending() after every call), and bursts of 1000-9000 posted handlers that each post a follow-up (Pending() after every cycle, RunPending returns); " +
			"cases = (80%) scripts of 10-50 steps over 2-5 objects (TCP conns, adapters, FIFOs, packet conns, connected UDP conns, listeners) with start/cancel/close/timer arm-cancel-close/Post/peer actions/PollOne and failed registrations (regular file at the dispatch limit -> EPERM, descriptor closed underneath -> EBADF, also with read and write both registered before the descriptor goes away and the object is closed), Pending() compared after every step; (17%) RunPending probes with 0-5 self-completing deferred operations, 0-2 short timers, 0-2 posts and optionally a failed registration; (3%) signal cases (SIGUSR1 to the loop thread during RunOneFor(200ms)/RunOne()); " +
			"non-trivial = script with >= 1 cancel/close/failed-registration/timer step, every RunPending probe, signal cases with an observed early return; distinct = step-kind counts",
		Assumptions: []string{
			"Pending() is compared only when no handler is on the stack",
			"n counts kernel events, so n >= 1 with zero handlers (a stale entry) is allowed by the statement",
			"'nothing was ready' is only asserted when poll(2) reports no ready descriptor with a deferred operation, no short timer is armed and no post is queued",
			"RunPending non-termination is decided by a 30 s bound on work that takes microseconds",
		},
		NumCases: func(tier, build string) int { return vf.Tiered(tier, 3000, 300000) },
		Floor:    func(tier string) int { return vf.Tiered(tier, 100, 500) },
		Run:      runC03,
	})
}
