package checks

import (
	"fmt"
	"net/netip"
	"sort"
	"strings"
	"syscall"

	"github.com/talostrading/sonic"
	"github.com/talostrading/sonic/multicast"

	"verif/internal/rawpeer"
	"verif/internal/sim"
	"verif/internal/vf"
)

// C14 - inline completions never nest deeper than the dispatch limit.
//
// Oracle: the harness nesting counter (++ on callback entry, -- on exit), the byte generator for the
// results of the operations that were deferred at the bound, IO.Dispatched at top level.

type c14Src struct {
	o            *sim.Obj
	kind         string
	gen          uint64
	off          int // next expected stream offset (reads)
	left         int // operations this source can still complete immediately
	mc           *multicast.UDPPeer
	mcPeer       int
	mcPort       int
	datagramSize int
	left2        int // receive-side stream offset (mcast-write)
	mcPeer2      int // a second destination for mcast-write (-1 if none)
	mcPort2      int
	mcExpect     [2][]int // per destination: stream offsets of the datagrams written to it, in order
	empty        []bool   // datagram i is empty (reads of it complete at once with n=0 or EOF)
	recvIdx      int
	later        [][]byte // datagrams held back: sent one at a time once a read of this source is parked in the poller
	laterTo      syscall.Sockaddr
	mcWaiting    bool
}

func runC14(c *vf.Case) {
	r := c.Rng
	w, err := sim.NewWorld(c)
	if err != nil {
		c.Failf("harness-setup", "NewWorld: %v", err)
		return
	}
	defer w.Teardown()
	w.LostCheck = false
	limit := sonic.MaxCallbackDispatch
	mix := r.Intn(4) // 0: single object, else mixed
	kinds := []string{"tcp-read", "tcp-write", "fifo-read", "fifo-write", "file-read", "file-write", "accept", "udp-readfrom", "udp-writeto", "mcast-read", "mcast-write", "connudp-readall"}
	var chosen []string
	if mix == 0 {
		chosen = []string{kinds[r.Intn(len(kinds))]}
	} else {
		for i := 0; i < r.Range(2, 5); i++ {
			chosen = append(chosen, kinds[r.Intn(len(kinds))])
		}
	}
	var srcs []*c14Src
	mcPorts := map[int]bool{}
	var closers []func()
	defer func() {
		for _, f := range closers {
			f()
		}
	}()
	for _, k := range chosen {
		s := &c14Src{kind: k, gen: r.U64()}
		switch k {
		case "tcp-read", "tcp-write":
			o, err := w.NewObj([]sim.Kind{sim.KConnDialed, sim.KConnAccepted}[r.Intn(2)], false)
			if err != nil {
				c.Failf("harness-setup", "%v", err)
				return
			}
			s.o = o
			if k == "tcp-read" {
				buf := make([]byte, 30000)
				vf.GenFill(buf, s.gen, 0)
				n, _ := rawpeer.WriteSome(o.Peer, buf)
				s.left = n / 16
			} else {
				s.left = 2000
				if r.Chance(1, 3) {
					// the connection has carried a large write before (larger than its send buffer: written in several
					// pieces, partly by the poller): nothing of that may show in the writes of the chain
					big := make([]byte, r.Range(2<<20, 6<<20))
					done := false
					var berr error
					o.FD.AsyncWriteAll(big, func(err error, n int) { done, berr = true, err })
					for i := 0; i < 20000 && !done; i++ {
						w.PeerDrain(o)
						_, _ = w.IOC.PollOne()
					}
					if !done || berr != nil {
						c.Failf("harness-setup", "the large write before the chain did not complete (done=%v err=%v)", done, berr)
						return
					}
					w.PeerDrain(o)
					c.Count("connections_that_carried_a_large_write_before_the_chain", 1)
				}
			}
		case "connudp-readall":
			// a connected datagram socket behind the stream interface, 200 small datagrams queued: every read-all of the
			// chain takes four successful reads in a row (one datagram each) and never meets would-block
			o, err := w.NewObj(sim.KConnUDP, false)
			if err != nil {
				c.Failf("harness-setup", "%v", err)
				return
			}
			s.o = o
			sa, err := syscall.Getsockname(o.Raw)
			if err != nil {
				c.Failf("harness-setup", "%v", err)
				return
			}
			for i := 0; i < 200; i++ {
				d := make([]byte, 8)
				vf.GenFill(d, s.gen, i*8)
				_ = syscall.Sendto(o.Peer, d, 0, sa)
			}
			s.left = 50
		case "fifo-read":
			o, err := w.NewObj(sim.KFifoR, false)
			if err != nil {
				c.Failf("harness-setup", "%v", err)
				return
			}
			s.o = o
			buf := make([]byte, 4000)
			vf.GenFill(buf, s.gen, 0)
			n, _ := rawpeer.WriteSome(o.Peer, buf)
			s.left = n / 16
		case "fifo-write":
			o, err := w.NewObj(sim.KFifoW, false)
			if err != nil {
				c.Failf("harness-setup", "%v", err)
				return
			}
			s.o = o
			s.left = 200
		case "file-read", "file-write":
			content := make([]byte, 40000)
			vf.GenFill(content, s.gen, 0)
			o, err := w.NewRegFile(content)
			if err != nil {
				c.Failf("harness-setup", "%v", err)
				return
			}
			s.o = o
			s.left = 2000
		case "accept":
			o, err := w.NewObj(sim.KListener, false)
			if err != nil {
				c.Failf("harness-setup", "%v", err)
				return
			}
			s.o = o
			s.left = 60
			for i := 0; i < s.left; i++ {
				_ = w.PeerConnect(o)
			}
		case "udp-readfrom", "udp-writeto":
			o, err := w.NewObj(sim.KUDP, false)
			if err != nil {
				c.Failf("harness-setup", "%v", err)
				return
			}
			s.o = o
			rawpeer.SetBufs(o.Raw, 0, 1<<20)
			rawpeer.SetBufs(o.Peer, 0, 1<<20)
			s.left = 100
			s.datagramSize = 24
			if k == "udp-readfrom" {
				sa, _ := syscall.Getsockname(o.Raw)
				emptyBurst := r.Chance(1, 4) // a run of empty datagrams: each read of one completes at once without data
				upfront := s.left
				if r.Chance(1, 3) {
					// the rest arrives only after a read, issued from inside a completion callback, has been parked
					upfront = r.Range(2, s.left)
				}
				s.laterTo = sa
				for i, full := 0, 0; i < s.left; i++ {
					var d []byte
					if r.Chance(1, 6) || (emptyBurst && i >= 10 && i < 60) {
						s.empty = append(s.empty, true)
					} else {
						s.empty = append(s.empty, false)
						d = make([]byte, s.datagramSize)
						vf.GenFill(d, s.gen, full*s.datagramSize)
						full++
					}
					if i < upfront {
						_ = syscall.Sendto(o.Peer, d, 0, sa)
					} else {
						s.later = append(s.later, d)
					}
				}
			}
		case "mcast-read", "mcast-write":
			p, err := multicast.NewUDPPeer(w.IOC, "udp", "127.0.0.1:0")
			for try := 0; err == nil && mcPorts[p.LocalAddr().Port] && try < 8; try++ {
				// peers set SO_REUSEPORT: the kernel's automatic choice may hand out a port another peer of this case holds,
				// and datagrams for that port would then go to either socket
				_ = p.Close()
				p, err = multicast.NewUDPPeer(w.IOC, "udp", "127.0.0.1:0")
			}
			if err != nil {
				c.Failf("harness-setup", "NewUDPPeer: %v", err)
				return
			}
			mcPorts[p.LocalAddr().Port] = true
			closers = append(closers, func() { _ = p.Close() })
			peer, port, err := rawpeer.UDP4([4]byte{127, 0, 0, 1})
			if err != nil {
				c.Failf("harness-setup", "%v", err)
				return
			}
			closers = append(closers, func() { syscall.Close(peer) })
			rawpeer.SetBufs(p.NextLayer().RawFd(), 0, 1<<20)
			rawpeer.SetBufs(peer, 0, 1<<20)
			s.mc, s.mcPeer, s.mcPort = p, peer, port
			s.mcPeer2 = -1
			if k == "mcast-write" {
				// consecutive writes alternate between two destinations: a deferred write must go where it was addressed
				peer2, port2, err := rawpeer.UDP4([4]byte{127, 0, 0, 1})
				if err != nil {
					c.Failf("harness-setup", "%v", err)
					return
				}
				closers = append(closers, func() { syscall.Close(peer2) })
				rawpeer.SetBufs(peer2, 0, 1<<20)
				s.mcPeer2, s.mcPort2 = peer2, port2
			}
			s.left = 100
			s.datagramSize = 24
			if k == "mcast-read" {
				emptyBurst := r.Chance(1, 4)
				to := &syscall.SockaddrInet4{Addr: [4]byte{127, 0, 0, 1}, Port: p.LocalAddr().Port}
				upfront := s.left
				if r.Chance(1, 3) {
					upfront = r.Range(2, s.left)
				}
				s.laterTo = to
				for i, full := 0, 0; i < s.left; i++ {
					var d []byte
					if r.Chance(1, 6) || (emptyBurst && i >= 10 && i < 60) {
						s.empty = append(s.empty, true)
					} else {
						s.empty = append(s.empty, false)
						d = make([]byte, s.datagramSize)
						vf.GenFill(d, s.gen, full*s.datagramSize)
						full++
					}
					if i < upfront {
						_ = syscall.Sendto(peer, d, 0, to)
					} else {
						s.later = append(s.later, d)
					}
				}
			}
		}
		srcs = append(srcs, s)
	}
	total := 0
	for _, s := range srcs {
		total += s.left
	}
	L := min(total, r.Range(100, 2000))
	c.Logf("chain of %d operations over %v", L, chosen)
	done := 0
	zeroLen, emptyReads, refusedFileOps, parkedThenFed := 0, 0, 0, 0
	// deepest nesting at which a completion callback ran, separately for the callbacks of regular-file operations
	// refused at the bound (they run inside the start call, one level above the bound: part of the listed finding)
	deepest, deepestRefusedFile := 0, 0
	noteDepth := func(refusedFile bool) {
		if refusedFile {
			deepestRefusedFile = max(deepestRefusedFile, w.Depth)
		} else {
			deepest = max(deepest, w.Depth)
		}
	}
	deferredHops := map[string]int{}
	nestedPolls := 0
	transitions := map[string]bool{}
	lastKind := ""
	var next func()
	finish := func(s *c14Src, wasDeferred bool, kindAtStart string) {
		done++
		if wasDeferred {
			deferredHops[s.kind]++
			transitions[kindAtStart+"->"+s.kind] = true
		}
		if w.IOC.Dispatched > 0 && r.Chance(1, 150) {
			// a callback that gives the loop a turn (nothing else is outstanding, nothing is ready): the frames below it
			// are still on the stack and still counted
			before := w.IOC.Dispatched
			_, _ = w.IOC.PollOne()
			nestedPolls++
			if w.IOC.Dispatched != before {
				c.Failf("dispatched-counter-changed-by-nested-poll", "IO.Dispatched was %d before PollOne() called from a completion callback %d frames deep and is %d after it", before, w.Depth, w.IOC.Dispatched)
			}
		}
		next()
	}
	next = func() {
		if done >= L || c.Failed() {
			return
		}
		var avail []*c14Src
		for _, s := range srcs {
			if s.left > 0 {
				avail = append(avail, s)
			}
		}
		if len(avail) == 0 {
			return
		}
		s := avail[r.Intn(len(avail))]
		s.left--
		prevKind := lastKind
		lastKind = s.kind
		atBound := w.IOC.Dispatched >= limit
		checkStream := func(op *sim.Op, read bool) {
			if op.Err != nil {
				key := "operation-failed/" + s.kind
				if op.Started || atBound {
					key = "deferred-hop-result-differs/" + s.kind
				}
				if (s.kind == "file-read" || s.kind == "file-write") && atBound {
					// the listed finding (epoll refuses regular files): recorded once per case without ending the case,
					// so that the rest of the chain is still monitored; the refused operation moved no bytes
					c.SoftFailf(key, "%s op%d (started at the dispatch bound=%v, deferred=%v) completed with %v instead of the result it would have had inline", s.kind, op.ID, atBound, op.Started, op.Err)
					refusedFileOps++
					return
				}
				c.Failf(key, "%s op%d (started at the dispatch bound=%v, deferred=%v) completed with %v instead of the result it would have had inline", s.kind, op.ID, atBound, op.Started, op.Err)
				return
			}
			if read {
				if op.N <= 0 || op.N > len(op.Buf) {
					c.Failf("deferred-hop-result-differs/"+s.kind, "%s op%d completed with n=%d", s.kind, op.ID, op.N)
					return
				}
				for i := 0; i < op.N; i++ {
					if op.Buf[i] != vf.Gen(s.gen, s.off+i) {
						key := "wrong-bytes/" + s.kind
						if op.Started {
							key = "deferred-hop-result-differs/" + s.kind
						}
						c.Failf(key, "%s op%d (deferred=%v): byte %d at stream offset %d differs", s.kind, op.ID, op.Started, i, s.off+i)
						return
					}
				}
				s.off += op.N
			}
		}
		switch s.kind {
		case "tcp-read", "fifo-read", "file-read":
			size := r.Range(1, 16)
			if r.Chance(1, 12) && s.kind != "file-read" {
				size = 0 // a zero-length operation completes immediately too; only the nesting matters for it
				zeroLen++
			}
			w.NextOnDone = func(op *sim.Op) {
				noteDepth(s.kind == "file-read" && atBound && op.Err != nil)
				if len(op.Buf) > 0 {
					checkStream(op, true)
				}
				finish(s, op.Started, prevKind)
			}
			w.StartStream(s.o, 0, false, size, sim.BNone, nil, false)
		case "connudp-readall":
			w.NextOnDone = func(op *sim.Op) {
				noteDepth(false)
				checkStream(op, true)
				if !c.Failed() && op.N != 32 {
					c.Failf("deferred-hop-result-differs/connudp-readall", "read-all of 32 bytes over queued 8-byte datagrams completed with n=%d err=%v", op.N, op.Err)
					return
				}
				finish(s, op.Started, prevKind)
			}
			w.StartStream(s.o, 0, true, 32, sim.BNone, nil, false)
		case "tcp-write", "fifo-write", "file-write":
			size := r.Range(1, 8)
			if r.Chance(1, 12) && s.kind != "file-write" {
				size = 0
				zeroLen++
			}
			w.NextOnDone = func(op *sim.Op) {
				noteDepth(s.kind == "file-write" && atBound && op.Err != nil)
				if len(op.Buf) > 0 {
					checkStream(op, false)
				}
				finish(s, op.Started, prevKind)
			}
			w.StartStream(s.o, 1, false, size, sim.BNone, nil, false)
		case "accept":
			w.NextOnDone = func(op *sim.Op) {
				noteDepth(false)
				if op.Err != nil || op.Accepted == nil {
					c.Failf("deferred-hop-result-differs/accept", "accept op%d (deferred=%v) completed with err=%v conn=%v", op.ID, op.Started, op.Err, op.Accepted != nil)
					return
				}
				finish(s, op.Started, prevKind)
			}
			w.StartAccept(s.o, sim.BNone, nil, false)
		case "udp-readfrom", "udp-writeto":
			dir := 0
			if s.kind == "udp-writeto" {
				dir = 1
			}
			w.NextOnDone = func(op *sim.Op) {
				noteDepth(false)
				if dir == 0 {
					idx := s.recvIdx
					s.recvIdx++
					if idx < len(s.empty) && s.empty[idx] {
						// an empty datagram: whatever the read reports for it, it carries no bytes and the chain goes on
						if op.N != 0 {
							c.Failf("deferred-hop-result-differs/udp-readfrom", "read of an empty datagram reported n=%d err=%v", op.N, op.Err)
							return
						}
						emptyReads++
						finish(s, op.Started, prevKind)
						return
					}
				}
				if dir == 0 && op.Err == nil && op.N != s.datagramSize {
					c.Failf("deferred-hop-result-differs/udp-readfrom", "datagram read n=%d", op.N)
					return
				}
				checkStream(op, dir == 0)
				finish(s, op.Started, prevKind)
			}
			w.StartPacket(s.o, dir, s.datagramSize, sim.BNone, nil, false)
		case "mcast-read":
			buf := make([]byte, s.datagramSize)
			returned := false
			calls := 0
			s.mc.AsyncRead(buf, func(err error, n int, _ netip.AddrPort) {
				w.EnterCB()
				noteDepth(false)
				s.mcWaiting = false
				calls++
				deferred := returned
				idx := s.recvIdx
				if calls == 1 {
					s.recvIdx++
				}
				if calls > 1 {
					c.Failf("callback-invoked-twice/mcast-read", "multicast read callback invoked %d times", calls)
				} else if idx < len(s.empty) && s.empty[idx] {
					if n != 0 {
						c.Failf("deferred-hop-result-differs/mcast-read", "read of an empty datagram reported n=%d err=%v", n, err)
					} else {
						emptyReads++
						finish(s, deferred, prevKind)
					}
				} else if err != nil || n != s.datagramSize {
					c.Failf("deferred-hop-result-differs/mcast-read", "multicast read (deferred=%v) completed with err=%v n=%d", deferred, err, n)
				} else {
					for i := 0; i < n; i++ {
						if buf[i] != vf.Gen(s.gen, s.off+i) {
							c.Failf("deferred-hop-result-differs/mcast-read", "multicast read (deferred=%v): wrong datagram bytes", deferred)
							break
						}
					}
					s.off += n
					finish(s, deferred, prevKind)
				}
				w.LeaveCB()
			})
			returned = true
			if calls == 0 {
				s.mcWaiting = true
			}
		case "mcast-write":
			buf := make([]byte, s.datagramSize)
			vf.GenFill(buf, s.gen, s.off)
			dst, dstPort := 0, s.mcPort
			if s.mcPeer2 >= 0 && r.Bool() {
				dst, dstPort = 1, s.mcPort2
			}
			s.mcExpect[dst] = append(s.mcExpect[dst], s.off)
			s.off += len(buf)
			returned := false
			calls := 0
			s.mc.AsyncWrite(buf, netip.AddrPortFrom(netip.AddrFrom4([4]byte{127, 0, 0, 1}), uint16(dstPort)), func(err error, n int) {
				w.EnterCB()
				noteDepth(false)
				deferred := returned
				calls++
				if calls > 1 {
					c.Failf("callback-invoked-twice/mcast-write", "the callback of one multicast-peer write was invoked %d times (another write's completion was routed to it)", calls)
				} else if err != nil || n != len(buf) {
					c.Failf("deferred-hop-result-differs/mcast-write", "multicast write (deferred=%v) completed with err=%v n=%d", deferred, err, n)
				} else {
					finish(s, deferred, prevKind)
				}
				w.LeaveCB()
			})
			returned = true
		}
	}
	drainMc := func(s *c14Src) {

		for di, fd := range []int{s.mcPeer, s.mcPeer2} {
			for fd >= 0 {
				d := make([]byte, 2048)
				n, _, err := syscall.Recvfrom(fd, d, 0)
				if err != nil || n <= 0 {
					break
				}
				if len(s.mcExpect[di]) == 0 {
					c.Failf("deferred-hop-result-differs/mcast-write", "destination %d received a datagram of %d bytes that was not addressed to it (a deferred write went to another write's destination)", di, n)
					break
				}
				off := s.mcExpect[di][0]
				s.mcExpect[di] = s.mcExpect[di][1:]
				for i := 0; i < n; i++ {
					if d[i] != vf.Gen(s.gen, off+i) {
						c.Failf("deferred-hop-result-differs/mcast-write", "datagram received at destination %d is not the one written to it at stream offset %d (a deferred write sent another write's buffer or went to another write's destination)", di, off)
						break
					}
				}
				s.left2 += n
			}
		}

	}
	next()
	for it := 0; it < 20*L+200 && done < L && !c.Failed(); it++ {
		if w.Depth != 0 {
			c.Failf("harness-depth-nonzero-at-top-level", "nesting counter is %d at top level", w.Depth)
			return
		}
		if w.IOC.Dispatched != 0 {
			c.Failf("dispatched-counter-not-zero-after-unwinding", "IO.Dispatched=%d at top level after the stack unwound (chain position %d of %d)", w.IOC.Dispatched, done, L)
			return
		}
		for _, s := range srcs {
			if len(s.later) > 0 && ((s.kind == "udp-readfrom" && s.o.Rd != nil) || (s.kind == "mcast-read" && s.mcWaiting)) {
				// a read issued from inside a completion callback found nothing and is parked: its datagram arrives now
				fd := s.mcPeer
				if s.kind == "udp-readfrom" {
					fd = s.o.Peer
				}
				_ = syscall.Sendto(fd, s.later[0], 0, s.laterTo)
				s.later = s.later[1:]
				parkedThenFed++
			}
			if (s.kind == "tcp-write" || s.kind == "fifo-write") && s.o != nil {
				w.PeerDrain(s.o)
			}
			if s.kind == "udp-writeto" && s.o != nil {
				w.PeerDrain(s.o)
			}
			if s.kind == "mcast-write" {
				drainMc(s)
			}
		}
		w.Poll()
	}
	if !c.Failed() {
		for _, s := range srcs {
			if s.kind == "mcast-write" {
				drainMc(s)
				for di := range s.mcExpect {
					if n := len(s.mcExpect[di]); n > 0 && !c.Failed() {
						c.Failf("deferred-hop-result-differs/mcast-write", "%d datagrams whose writes completed successfully never arrived at destination %d (first at stream offset %d)", n, di, s.mcExpect[di][0])
					}
				}
			}
		}
		if done < L {
			c.Failf("chain-did-not-continue-through-deferred-hop", "only %d of %d operations completed: an operation deferred at the bound never completed", done, L)
		}
		if w.IOC.Dispatched != 0 {
			c.Failf("dispatched-counter-not-zero-after-unwinding", "IO.Dispatched=%d after the chain finished", w.IOC.Dispatched)
		}
		if deepest > limit+1 {
			c.Failf("nesting-deeper-than-dispatch-limit", "%d completion callbacks were nested on the stack (limit %d + the one dispatched by the poller)", deepest, limit)
		}
		if deepestRefusedFile > limit+1 {
			c.SoftFailf("nesting-deeper-than-dispatch-limit/regular-file-refused-at-the-bound", "a regular-file operation started at the bound was refused by epoll and its callback ran inside the start call, at nesting depth %d (limit %d + the one dispatched by the poller)", deepestRefusedFile, limit)
		}
	}
	// Operations that complete immediately WITH AN ERROR are counted and unwound like successful ones: after the chain,
	// every object is driven into a state where its operations fail inside the start call (accept with the descriptor
	// table exhausted, read/write on a reset connection, read on a FIFO whose writer left, write on a FIFO whose reader
	// left, datagram too long for UDP). k of them are started - from top level one after the other, or (half of the
	// time) each from the callback of the previous one, which nests them up to the bound like any other chain.
	if !c.Failed() && len(w.InFlight()) == 0 {
		for _, s := range srcs {
			if c.Failed() {
				break
			}
			chained := r.Bool()
			k := r.Range(1, 40)
			if chained {
				k = r.Range(20, 90)
			}
			inlineErrors, started, completed := 0, 0, 0
			deepestBefore := deepest
			var issue func() bool // starts one operation; false when the object cannot take one
			onDone := func(err error, inline bool) {
				noteDepth(false)
				completed++
				if err != nil && inline {
					inlineErrors++
				}
				if chained && started < k && !c.Failed() {
					issue()
				}
			}
			simDone := func(op *sim.Op) {
				if completed == 0 {
					c.Logf("  %s after the fault: err=%v n=%d deferred=%v chained=%v", s.kind, op.Err, op.N, op.Started, chained)
				}
				onDone(op.Err, !op.Started)
			}
			body := func() {
				if chained {
					issue()
					for it := 0; it < 400 && completed < started && !c.Failed(); it++ {
						w.Poll()
					}
				} else {
					for i := 0; i < k && len(w.InFlight()) == 0; i++ {
						if !issue() {
							break
						}
					}
				}
			}
			switch s.kind {
			case "accept":
				for i := 0; i < 3; i++ {
					_ = w.PeerConnect(s.o)
				}
				issue = func() bool {
					if s.o.Rd != nil {
						return false
					}
					started++
					w.NextOnDone = simDone
					w.StartAccept(s.o, sim.BNone, nil, false)
					return true
				}
				withLimit(3, body) // every new descriptor number would be >= 3: accept(2) fails with EMFILE
			case "tcp-read", "tcp-write", "fifo-read", "fifo-write":
				dir := 0
				if strings.HasSuffix(s.kind, "write") {
					dir = 1
				}
				if strings.HasPrefix(s.kind, "tcp") {
					w.PeerReset(s.o)
				} else {
					w.PeerClose(s.o)
				}
				issue = func() bool {
					if (dir == 0 && s.o.Rd != nil) || (dir == 1 && s.o.Wr != nil) {
						return false
					}
					started++
					size := 8
					if dir == 0 {
						size = 1 << 16 // the first reads drain what is still buffered, the following ones fail
					}
					w.NextOnDone = simDone
					w.StartStream(s.o, dir, false, size, sim.BNone, nil, false)
					return true
				}
				body()
			case "udp-writeto":
				issue = func() bool {
					if s.o.Wr != nil {
						return false
					}
					started++
					w.NextOnDone = simDone
					w.StartPacket(s.o, 1, 70000, sim.BNone, nil, false)
					return true
				}
				body()
			case "mcast-write":
				issue = func() bool {
					started++
					returned := false
					s.mc.AsyncWrite(make([]byte, 70000), netip.AddrPortFrom(netip.AddrFrom4([4]byte{127, 0, 0, 1}), uint16(s.mcPort)), func(err error, n int) {
						w.EnterCB()
						onDone(err, !returned)
						w.LeaveCB()
					})
					returned = true
					return true
				}
				body()
			default:
				continue
			}
			c.Count("operations_completed_inline_with_an_error", inlineErrors)
			if chained {
				c.Count("error_completions_issued_from_the_previous_ones_callback", completed)
			}
			if inlineErrors > 0 {
				c.Cover("inline_error_kinds", s.kind)
			}
			if w.IOC.Dispatched != 0 {
				c.Failf("dispatched-counter-not-zero-after-unwinding", "IO.Dispatched=%d at top level after %d %s operations were started (chained from callbacks: %v) of which %d completed inside the start call with an error", w.IOC.Dispatched, started, s.kind, chained, inlineErrors)
			}
			if deepest > limit+1 && deepest > deepestBefore {
				c.Failf("nesting-deeper-than-dispatch-limit", "%d completion callbacks were nested on the stack while %s operations that fail at once were re-issued from their callbacks (limit %d + the one dispatched by the poller)", deepest, s.kind, limit)
			}
			for it := 0; it < 50 && len(w.InFlight()) > 0; it++ {
				w.Poll()
			}
		}
	}
	c.Max("max_depth_seen", int64(deepest))
	c.Max("max_depth_of_a_refused_regular_file_callback", int64(deepestRefusedFile))
	c.Count("regular_file_operations_refused_at_the_bound", refusedFileOps)
	c.Count("chain_operations", done)
	c.Count("polls_from_inside_a_completion_callback", nestedPolls)
	c.Count("zero_length_operations", zeroLen)
	c.Count("reads_of_empty_datagrams", emptyReads)
	c.Count("reads_parked_inside_a_callback_and_completed_by_the_poller", parkedThenFed)
	hops := 0
	for k, v := range deferredHops {
		c.Count("deferred_hops_"+k, v)
		hops += v
	}
	for t := range transitions {
		c.Cover("object_kind_transitions_at_the_bound", t)
	}
	sort.Strings(chosen)
	c.Cover("mixes", strings.Join(chosen, "+"))
	if hops > 0 {
		c.NonTrivial(fmt.Sprintf("%s/%d", strings.Join(chosen, "+"), min(hops, 8)))
	}
}

func init() {
	register(&vf.Check{
		ID:        "C14",
		Technique: "runtime monitor: harness nesting counter around every completion callback + byte-generator check of the results of operations deferred at the dispatch bound + IO.Dispatched inspected at top level, over long chains of immediately completable operations re-issued from their own callbacks",
		Rule: "multicast writes alternate between two destinations and every datagram must arrive where it was addressed; one hop in 150 calls PollOne() from inside the callback (the counter must be unchanged); a third of the TCP write sources carry a 2-6 MiB write before the chain; one more source: read-all of 32 bytes over queued 8-byte datagrams of a connected UDP socket; " +
			"cases = chains of 100-2000 immediately completable operations, each started from the previous one's callback, hopping by PRNG between 1-5 sources from {TCP read with buffered data and 1-16 byte buffers, TCP write, FIFO read, FIFO write, regular-file read and write through Open, accept with a queued backlog, UDP AsyncReadFrom / AsyncWriteTo, multicast peer AsyncRead / AsyncWrite}; one datagram in six (or a run of 50) is empty, 1 in 12 socket/FIFO operations is zero-length; the chain continues through the deferred hop; afterwards each object is driven into a state where its operations fail inside the start call (accept under RLIMIT_NOFILE=3, read/write after RST, FIFO end gone, EMSGSIZE) and 1-90 of them are started, from top level or each from the callback of the previous one; the nesting depth is tracked per callback; " +
			"non-trivial = the chain hit the dispatch bound at least once (a deferred hop); distinct = (mix of sources, number of deferred hops)",
		Assumptions: []string{
			"the multicast peer is exercised with unicast datagrams on 127.0.0.1 (its AsyncRead/AsyncWrite paths are the same)",
			"the bound is MaxCallbackDispatch callbacks plus the one dispatched by the poller, as the statement says",
		},
		NumCases: func(tier, build string) int { return vf.Tiered(tier, 1500, 200000) },
		Floor:    func(tier string) int { return vf.Tiered(tier, 50, 300) },
		Run:      runC14,
	})
}
