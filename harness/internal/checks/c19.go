package checks

import (
	"bytes"
	"encoding/binary"
	"errors"
	"fmt"
	"time"

	"github.com/talostrading/sonic"
	"github.com/talostrading/sonic/codec/frame"
	"github.com/talostrading/sonic/sonicerrors"

	"verif/internal/rawpeer"
	"verif/internal/sim"
	"verif/internal/vf"
	"verif/internal/xport"
)

// C19 - CodecConn framing is independent of transport segmentation.
//
// Oracle: the generated payload list (read direction: items returned one per call must be the list, in
// order, byte-identical, whatever the segmentation; write direction: the bytes accepted by the transport
// must be the concatenated encodings and the destination buffer must be empty after every successful
// write), Cap() of the source buffer for "rejected before any buffering".

func c19Sizes(r *vf.Rand) int {
	switch r.Intn(12) {
	case 0:
		return 0
	case 1:
		return 1
	case 2:
		return 3
	case 3:
		return 4
	case 4:
		return 5
	case 5:
		return 255
	case 6:
		return 4096
	case 7:
		if r.Chance(1, 6) {
			return 65536
		}
		if r.Chance(1, 8) {
			// an item that makes the buffers grow well past their usual size, with ordinary items behind it
			return []int{150 << 10, 300 << 10, 1<<20 + 17}[r.Intn(3)]
		}
		return 600
	default:
		return r.Intn(600)
	}
}

func c19Encode(p []byte) []byte {
	b := make([]byte, 4+len(p))
	binary.BigEndian.PutUint32(b, uint32(len(p)))
	copy(b[4:], p)
	return b
}

// c19ReadRun feeds wire cut at the given offsets and reads all items back.
func c19ReadRun(c *vf.Case, payloads [][]byte, wire []byte, cuts []int, async, incremental bool, label string) {
	t := xport.New()
	src, dst := sonic.NewByteBuffer(), sonic.NewByteBuffer()
	codec := frame.NewCodec(src)
	conn, err := sonic.NewCodecConn[[]byte, []byte](t, codec, src, dst)
	if err != nil {
		c.Failf("codecconn-constructor", "NewCodecConn: %v", err)
		return
	}
	var segs [][]byte
	prev := 0
	for _, cut := range append(append([]int(nil), cuts...), len(wire)) {
		if cut > prev {
			segs = append(segs, wire[prev:cut])
			prev = cut
		}
	}
	next := 0
	feed := func() bool {
		if next >= len(segs) {
			return false
		}
		t.Feed(segs[next])
		next++
		return true
	}
	if !incremental {
		for feed() {
		}
	}
	// an echoing application: every item is written back with WriteNext exactly as ReadNext / AsyncReadNext handed it
	// over (the zero-copy slice, not a copy), while further items may already be buffered behind it
	echo := c.Rng.Chance(1, 3)
	var echoed []byte
	doEcho := func(it []byte, i int) {
		if !echo || c.Failed() {
			return
		}
		if _, err := conn.WriteNext(it); err != nil {
			c.Failf("echo-write-failed", "%s: WriteNext of the %d-byte item %d just read returned %v", label, len(it), i, err)
			return
		}
		echoed = append(echoed, c19Encode(payloads[i])...)
		if !bytes.Equal(t.Written, echoed) {
			c.Failf("echoed-item-differs", "%s: item %d (%d bytes) written back as read: the transport holds %d bytes, the encodings of the items so far are %d bytes (first diff %d)", label, i, len(payloads[i]), len(t.Written), len(echoed), firstDiff(t.Written, echoed))
		}
		c.Count("items_echoed_as_read", 1)
	}
	got := 0
	if async {
		t.DeferReads = c.Rng.Bool()
		for got < len(payloads) && !c.Failed() {
			calls := 0
			var item []byte
			var ierr error
			conn.AsyncReadNext(func(e error, it []byte) {
				calls++
				ierr = e
				item = append([]byte(nil), it...)
				if e == nil && calls == 1 && got < len(payloads) && bytes.Equal(it, payloads[got]) {
					doEcho(it, got)
				}
			})
			for guard := 0; calls == 0 && guard < 1000000; guard++ {
				if t.Pump() > 0 {
					continue
				}
				if !feed() {
					break
				}
				c.Count("async_waits_for_more_bytes", 1)
			}
			t.Pump()
			if calls != 1 {
				c.Failf("asyncreadnext-callback-count", "%s: AsyncReadNext for item %d invoked its callback %d times after all %d bytes were supplied", label, got, calls, len(wire))
				return
			}
			if ierr != nil {
				c.Failf("read-error-on-valid-stream", "%s: AsyncReadNext for item %d returned %v", label, got, ierr)
				return
			}
			if !bytes.Equal(item, payloads[got]) {
				c.Failf("item-differs", "%s: item %d has %d bytes, written payload has %d (first diff %d)", label, got, len(item), len(payloads[got]), firstDiff(item, payloads[got]))
				return
			}
			got++
		}
	} else {
		for got < len(payloads) && !c.Failed() {
			item, err := conn.ReadNext()
			if errors.Is(err, sonicerrors.ErrWouldBlock) {
				c.Count("wouldblock_mid_item_read", 1)
				if !feed() {
					c.Failf("read-stuck", "%s: ReadNext keeps returning would-block for item %d although all %d bytes were supplied", label, got, len(wire))
					return
				}
				continue
			}
			if err != nil {
				c.Failf("read-error-on-valid-stream", "%s: ReadNext for item %d returned %v", label, got, err)
				return
			}
			if !bytes.Equal(item, payloads[got]) {
				c.Failf("item-differs", "%s: item %d has %d bytes, written payload has %d (first diff %d)", label, got, len(item), len(payloads[got]), firstDiff(item, payloads[got]))
				return
			}
			doEcho(item, got)
			got++
		}
		if !c.Failed() {
			for feed() {
			}
			if item, err := conn.ReadNext(); err == nil {
				c.Failf("extra-item", "%s: ReadNext returned an extra %d-byte item after the %d written ones", label, len(item), len(payloads))
			}
		}
	}
	c.Count("items_read", got)
}

// c19RealSocket: the same oracle over a real sonic conn (non-blocking TCP) whose peer is a raw descriptor: would-block
// in the middle of an item happens in the kernel, in both directions.
func c19RealSocket(c *vf.Case) {
	r := c.Rng
	w, err := sim.NewWorld(c)
	if err != nil {
		c.Failf("harness-setup", "%v", err)
		return
	}
	defer w.Teardown()
	w.LostCheck = false
	o, err := w.NewObj([]sim.Kind{sim.KConnDialed, sim.KConnAccepted}[r.Intn(2)], true)
	if err != nil {
		c.Failf("harness-setup", "%v", err)
		return
	}
	src, dst := sonic.NewByteBuffer(), sonic.NewByteBuffer()
	conn, _ := sonic.NewCodecConn[[]byte, []byte](o.FD, frame.NewCodec(src), src, dst)
	// read direction: the peer writes the encodings in random chunks, one chunk per poll cycle
	n := r.Range(2, 10)
	var payloads [][]byte
	var wire []byte
	for i := 0; i < n; i++ {
		p := r.Bytes(c19Sizes(r))
		payloads = append(payloads, p)
		wire = append(wire, c19Encode(p)...)
	}
	sent, got := 0, 0
	waits := 0
	for got < len(payloads) && !c.Failed() {
		calls := 0
		var item []byte
		var ierr error
		conn.AsyncReadNext(func(e error, it []byte) { calls++; ierr = e; item = append([]byte(nil), it...) })
		for guard := 0; calls == 0 && guard < 200000; guard++ {
			if sent < len(wire) {
				k := min(len(wire)-sent, []int{1, 2, 3, 5, 100, 5000}[r.Intn(6)])
				m, _ := rawpeer.WriteSome(o.Peer, wire[sent:sent+k])
				sent += m
				waits++
			}
			w.Poll()
		}
		if calls != 1 || ierr != nil || !bytes.Equal(item, payloads[got]) {
			c.Failf("item-differs/real-socket", "item %d over a real socket: callback calls=%d err=%v len=%d want %d", got, calls, ierr, len(item), len(payloads[got]))
			return
		}
		got++
	}
	c.Count("items_read_real_socket", got)
	c.Count("wouldblock_mid_item_read", waits)
	// write direction: items larger than the send buffer; the peer drains a little per poll cycle
	var want, peerGot []byte
	for i := 0; i < r.Range(1, 4) && !c.Failed(); i++ {
		p := r.Bytes([]int{10, 5000, 100000, 300000}[r.Intn(4)])
		want = append(want, c19Encode(p)...)
		calls := 0
		var werr error
		conn.AsyncWriteNext(p, func(e error, _ int) { calls++; werr = e })
		polls := 0
		for guard := 0; calls == 0 && guard < 400000; guard++ {
			d, _, _ := rawpeer.Drain(o.Peer, r.Range(1, 40000))
			peerGot = append(peerGot, d...)
			w.Poll()
			polls++
			if guard > 2000 {
				time.Sleep(50 * time.Microsecond)
			}
		}
		if polls > 2 {
			c.Count("wouldblock_mid_item_write", 1)
		}
		if calls != 1 || werr != nil {
			c.Failf("write-error-on-healthy-transport/real-socket", "AsyncWriteNext of %d bytes: calls=%d err=%v", len(p), calls, werr)
			return
		}
		if dst.ReadLen() != 0 || dst.WriteLen() != 0 {
			c.Failf("item-left-behind-after-successful-write", "real socket: destination buffer holds %d+%d bytes after a successful write", dst.ReadLen(), dst.WriteLen())
			return
		}
		c.Count("items_written_real_socket", 1)
	}
	// a chain of small items of different sizes, each written from the completion callback of the one before (the
	// writes complete inline until the chain reaches the dispatch limit and the next one goes through the poller)
	if !c.Failed() && r.Bool() {
		nchain := r.Range(34, 90)
		items := make([][]byte, nchain)
		for i := range items {
			items[i] = r.Bytes(r.Range(1, 300))
			want = append(want, c19Encode(items[i])...)
		}
		done := make([]int, nchain)
		var cerr error
		var next func(i int)
		next = func(i int) {
			if i == nchain {
				return
			}
			conn.AsyncWriteNext(items[i], func(e error, _ int) {
				done[i]++
				if e != nil && cerr == nil {
					cerr = e
				}
				if e == nil {
					next(i + 1)
				}
			})
		}
		next(0)
		for guard := 0; done[nchain-1] == 0 && cerr == nil && guard < 20000; guard++ {
			d, _, _ := rawpeer.Drain(o.Peer, 1<<20)
			peerGot = append(peerGot, d...)
			w.Poll()
		}
		for i, k := range done {
			if k != 1 || cerr != nil {
				c.Failf("chained-write-callback-count/real-socket", "chain of %d items written from each other's completion callbacks: item %d (%d bytes) completed %d times, first error %v", nchain, i, len(items[i]), k, cerr)
				return
			}
		}
		c.Count("items_written_in_callback_chains", nchain)
	}
	dl := time.Now().Add(10 * time.Second)
	for len(peerGot) < len(want) && time.Now().Before(dl) {
		d, _, _ := rawpeer.Drain(o.Peer, 1<<24)
		peerGot = append(peerGot, d...)
		if len(d) == 0 {
			time.Sleep(100 * time.Microsecond)
		}
	}
	if !bytes.Equal(peerGot, want) && !c.Failed() {
		c.Failf("peer-bytes-differ/real-socket", "the raw peer received %d bytes, the concatenated encodings are %d bytes (first diff %d)", len(peerGot), len(want), firstDiff(peerGot, want))
	}
	c.NonTrivial(fmt.Sprintf("real/%v/%d", o.Kind, n))
}

func runC19(c *vf.Case) {
	r := c.Rng
	if c.Index%8 == 7 {
		c19RealSocket(c)
		return
	}
	mode := r.Intn(10)
	switch {
	case mode <= 4: // read direction
		n := r.Range(1, 12)
		var payloads [][]byte
		var wire []byte
		for i := 0; i < n; i++ {
			p := r.Bytes(c19Sizes(r))
			payloads = append(payloads, p)
			wire = append(wire, c19Encode(p)...)
		}
		async := r.Bool()
		c.Logf("read direction: %d items, %d wire bytes, async=%v, sizes=%v", n, len(wire), async, sizesOf(payloads))
		splitClass := ""
		if len(wire) <= 300 {
			// systematic: every single cut offset
			for cut := 1; cut < len(wire) && !c.Failed(); cut++ {
				c19ReadRun(c, payloads, wire, []int{cut}, async, r.Bool(), fmt.Sprintf("cut@%d", cut))
				c.Count("split_runs", 1)
				if cut < 4 {
					c.Cover("cut_class", "inside-first-length-prefix")
				}
			}
			splitClass = "every-offset"
		} else {
			var cuts []int
			for i := 0; i < r.Range(1, 6); i++ {
				cuts = append(cuts, r.Intn(len(wire)))
			}
			// force a cut inside a length prefix
			off := 0
			for i := 0; i < r.Intn(n); i++ {
				off += 4 + len(payloads[i])
			}
			cuts = append(cuts, off+r.Range(1, 3))
			sortInts(cuts)
			c19ReadRun(c, payloads, wire, cuts, async, r.Bool(), fmt.Sprintf("cuts@%v", cuts))
			c.Count("split_runs", 1)
			c.Cover("cut_class", "inside-a-length-prefix")
			splitClass = "random-cuts"
		}
		if !c.Failed() {
			c19ReadRun(c, payloads, wire, nil, async, false, "coalesced")
		}
		if !c.Failed() && len(wire) <= 2000 && r.Chance(1, 3) {
			cuts := make([]int, 0, len(wire))
			for i := 1; i < len(wire); i++ {
				cuts = append(cuts, i)
			}
			c19ReadRun(c, payloads, wire, cuts, async, r.Bool(), "byte-at-a-time")
			splitClass += "+byte-at-a-time"
		}
		c.NonTrivial(fmt.Sprintf("read/%v/%s/%v", async, splitClass, sizeClasses(payloads)))
	case mode <= 7: // write direction
		t := xport.New()
		src, dst := sonic.NewByteBuffer(), sonic.NewByteBuffer()
		conn, _ := sonic.NewCodecConn[[]byte, []byte](t, frame.NewCodec(src), src, dst)
		n := r.Range(1, 12)
		async := r.Bool()
		t.WriteMax = []int{0, 1, 3, 7, 64}[r.Intn(5)]
		t.DeferWrites = r.Bool()
		c.Logf("write direction: %d items, async=%v, transport accepts %d bytes per write, deferred=%v", n, async, t.WriteMax, t.DeferWrites)
		var want []byte
		var payloads [][]byte
		for i := 0; i < n && !c.Failed(); i++ {
			p := r.Bytes(c19Sizes(r))
			payloads = append(payloads, p)
			want = append(want, c19Encode(p)...)
			if async {
				hold := r.Chance(1, 3)
				t.HoldWrites = hold
				calls, cbN := 0, 0
				var cbErr error
				conn.AsyncWriteNext(p, func(e error, k int) { calls++; cbErr = e; cbN = k })
				if hold {
					c.Count("wouldblock_mid_item_write", 1)
					if calls != 0 && len(p)+4 > 0 && len(t.Written) < len(want) {
						c.Failf("write-completed-before-transport-writable", "AsyncWriteNext completed while the transport was not writable and only %d of %d bytes are out", len(t.Written), len(want))
					}
					t.ReleaseWrites()
				}
				t.Pump()
				if calls != 1 {
					c.Failf("asyncwritenext-callback-count", "AsyncWriteNext of item %d (%d bytes) invoked its callback %d times", i, len(p), calls)
					break
				}
				if cbErr != nil {
					c.Failf("write-error-on-healthy-transport", "AsyncWriteNext of item %d returned %v", i, cbErr)
					break
				}
				_ = cbN
			} else {
				blockAt := -1
				if r.Chance(1, 3) {
					// would-block in the middle of (or right before / after) this item
					blockAt = len(t.Written) + r.Intn(4+len(p)+1)
					t.WriteBlockAt = blockAt
				}
				k, err := conn.WriteNext(p)
				if errors.Is(err, sonicerrors.ErrWouldBlock) && blockAt >= 0 {
					c.Count("wouldblock_mid_item_write", 1)
					c.Logf("item %d: WriteNext hit would-block after %d of %d bytes", i, blockAt-(len(want)-4-len(p)), 4+len(p))
					// the rest of the item must go out, exactly once, with the next successful write
					// (an empty item, or - every other time - an ordinary one that has to fit behind what is still queued)
					q := []byte{}
					if r.Bool() {
						q = r.Bytes(c19Sizes(r))
						c.Count("items_written_behind_a_queued_remainder", 1)
					}
					payloads = append(payloads, q)
					want = append(want, c19Encode(q)...)
					k, err = conn.WriteNext(q)
					if err == nil {
						k = 4 + len(p) // count of the flushing write is not compared
					}
				}
				if err != nil {
					c.Failf("write-error-on-healthy-transport", "WriteNext of item %d returned %v", i, err)
					break
				}
				t.WriteBlockAt = -1
				if k != 4+len(p) {
					c.Failf("writenext-count", "WriteNext of a %d-byte item returned n=%d", len(p), k)
				}
			}
			c.Logf("item %d: %d bytes; transport has %d bytes, expected %d; dst read=%d write=%d", i, len(p), len(t.Written), len(want), dst.ReadLen(), dst.WriteLen())
			if dst.ReadLen() != 0 || dst.WriteLen() != 0 {
				c.Failf("item-left-behind-after-successful-write", "after a successful write of item %d (%d bytes) the destination buffer still holds %d readable + %d uncommitted bytes; the transport received %d of %d bytes", i, len(p), dst.ReadLen(), dst.WriteLen(), len(t.Written), len(want))
				break
			}
			if !bytes.Equal(t.Written, want) {
				c.Failf("peer-bytes-differ", "after item %d the transport holds %d bytes, the concatenated encodings are %d bytes (first diff %d)", i, len(t.Written), len(want), firstDiff(t.Written, want))
				break
			}
			c.Count("items_written", 1)
		}
		c.NonTrivial(fmt.Sprintf("write/%v/%d/%v/%v", async, t.WriteMax, t.DeferWrites, sizeClasses(payloads)))
	default: // hostile input
		t := xport.New()
		src, dst := sonic.NewByteBuffer(), sonic.NewByteBuffer()
		conn, _ := sonic.NewCodecConn[[]byte, []byte](t, frame.NewCodec(src), src, dst)
		var wire []byte
		kind := r.Intn(3)
		var declared uint32
		switch kind {
		case 0:
			declared = []uint32{frame.MaxPayloadLength + 1, 1 << 31, 1<<32 - 1, 1<<31 + 7, frame.MaxPayloadLength + 4096}[r.Intn(5)]
			wire = binary.BigEndian.AppendUint32(nil, declared)
			wire = append(wire, r.Bytes(r.Intn(64))...)
		default:
			wire = r.Bytes(r.Range(1, 80))
			if len(wire) >= 4 {
				declared = binary.BigEndian.Uint32(wire)
				if declared > 65536 && declared <= frame.MaxPayloadLength {
					// keep allocations small (assumption): force it below 64 KiB or above the limit
					if r.Bool() {
						wire[0], wire[1] = 0, 0
					} else {
						wire[0] |= 0x80
					}
					declared = binary.BigEndian.Uint32(wire)
				}
			}
		}
		// optionally preceded by valid items
		var pre [][]byte
		var prefix []byte
		for i := 0; i < r.Intn(3); i++ {
			p := r.Bytes(r.Intn(40))
			pre = append(pre, p)
			prefix = append(prefix, c19Encode(p)...)
		}
		wire = append(prefix, wire...)
		cut := r.Intn(len(wire) + 1)
		t.Feed(wire[:cut])
		t.Feed(wire[cut:])
		async := r.Bool()
		c.Logf("hostile input: %d valid items then declared length %d (%#x), %d bytes, cut at %d, async=%v", len(pre), declared, declared, len(wire), cut, async)
		capBefore := src.Cap()
		over := declared > frame.MaxPayloadLength
		for i := 0; i < len(pre)+3 && !c.Failed(); i++ {
			var item []byte
			var err error
			if async {
				calls := 0
				conn.AsyncReadNext(func(e error, it []byte) { calls++; err = e; item = it })
				t.Pump()
				if calls == 0 {
					break // parked waiting for more bytes: fine
				}
				if calls > 1 {
					c.Failf("asyncreadnext-callback-count", "AsyncReadNext invoked its callback %d times on hostile input", calls)
				}
			} else {
				item, err = conn.ReadNext()
			}
			if i < len(pre) {
				if err != nil || !bytes.Equal(item, pre[i]) {
					c.Failf("valid-item-before-hostile-bytes-lost", "item %d before the hostile bytes: err=%v len=%d want %d", i, err, len(item), len(pre[i]))
				}
				continue
			}
			if over && len(wire)-len(prefix) >= 4 {
				if err == nil || errors.Is(err, sonicerrors.ErrWouldBlock) || errors.Is(err, sonicerrors.ErrNeedMore) {
					c.Failf("oversize-length-not-rejected", "declared length %d above the limit %d: ReadNext returned err=%v", declared, frame.MaxPayloadLength, err)
				}
				if src.Cap() > capBefore+8192 {
					c.Failf("oversize-length-buffered-before-rejection", "declared length %d above the limit: source buffer capacity grew from %d to %d before the rejection", declared, capBefore, src.Cap())
				}
				c.Count("oversize_rejections", 1)
			}
			break
		}
		if src.Cap() > capBefore+2*65536+8192 {
			c.Failf("hostile-input-unbounded-buffering", "source buffer capacity grew from %d to %d on %d hostile bytes", capBefore, src.Cap(), len(wire))
		}
		c.Count("hostile_inputs", 1)
		c.NonTrivial(fmt.Sprintf("hostile/%d/%v/%v", kind, over, async))
	}
}

func sizesOf(ps [][]byte) []int {
	out := make([]int, len(ps))
	for i, p := range ps {
		out[i] = len(p)
	}
	return out
}

func sizeClasses(ps [][]byte) string {
	seen := map[string]bool{}
	for _, p := range ps {
		switch n := len(p); {
		case n == 0:
			seen["0"] = true
		case n < 4:
			seen["<4"] = true
		case n == 4:
			seen["4"] = true
		case n <= 255:
			seen["<=255"] = true
		case n <= 4096:
			seen["<=4096"] = true
		default:
			seen[">4096"] = true
		}
	}
	return fmt.Sprint(vf.SortedKeys(seen))
}

func init() {
	register(&vf.Check{
		ID:        "C19",
		Technique: "runtime monitor over a scripted in-memory transport: item sequences compared with the generated payload list under every cut offset / random cuts / byte-at-a-time / would-block mid-item, transport bytes and destination buffer inspected after every write, Cap() watched on hostile prefixes; plain build",
		Rule: "every other real-socket case ends with a chain of 34-90 items of 1-300 bytes, each written from the completion callback of the one before (across the dispatch limit); a third of the read runs write every item back with WriteNext exactly as it was handed over; one item in about a hundred has 150 KiB - 1 MiB; " +
			"cases = read direction (1-12 payloads of sizes {0,1,3,4,5,255,600,4096,65536,random}, wire cut at EVERY offset when <=300 bytes, else random cuts incl. inside a length prefix, plus coalesced and byte-at-a-time; blocking and asynchronous, all-at-once and incremental feeding), write direction (WriteNext/AsyncWriteNext over transports accepting 1/3/7/64/all bytes per write, inline/deferred, transport temporarily not writable), hostile input (declared length limit+1, 2^31, 2^32-1, random bytes; after 0-2 valid items); " +
			"every case is non-trivial; distinct = (direction, API, split class or write behaviour, size classes)",
		Assumptions: []string{
			"declared lengths in (64 KiB, limit=1 GiB] are not fed (a conforming implementation must allocate for them): only <= 64 KiB or > limit",
			"a synchronous WriteNext that hits would-block mid-item returns the error; the remainder must reach the transport exactly once with the next successful write (an empty item or, every other time, an item of an ordinary size written behind the queued remainder)",
			"one case in eight runs over a real non-blocking TCP conn (dialed or accepted, shrunken send buffers) with a raw peer; the others on the scripted transport",
		},
		// the real-socket eighth of the cases enters the poller, whose packed epoll_event is misaligned by design:
		// plain build (the in-memory cases were also run under checkptr while this check was developed)
		Builds:   func(string) []string { return []string{"plain"} },
		NumCases: func(tier, build string) int { return vf.Tiered(tier, 4000, 300000) },
		Floor:    func(tier string) int { return vf.Tiered(tier, 50, 200) },
		Run:      runC19,
	})
}
