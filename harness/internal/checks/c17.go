package checks

import (
	"bufio"
	"bytes"
	"errors"
	"fmt"
	"net"
	"net/http"
	"strings"
	"syscall"
	"time"

	"github.com/talostrading/sonic"
	"github.com/talostrading/sonic/codec/websocket"

	"verif/internal/rawpeer"
	"verif/internal/vf"
	"verif/internal/wsref"
	"verif/internal/xport"
)

// C17 - WebSocket read and write in flight together each complete exactly once.
//
// Oracles: a ledger of every user callback (AsyncNextFrame / AsyncNextMessage / AsyncWrite /
// AsyncWriteFrame / AsyncFlush / AsyncClose), the independent parser over all bytes the peer received
// (whole frames, nothing repeated or interleaved, application writes in order, owed Pongs and Close exactly
// once), a bounded quiescence while the transport is healthy.

type c17CB struct {
	what  string
	calls int
	err   error
}

type c17Transport interface {
	feed(b []byte) // peer -> client bytes
	step()         // one unit of progress (pump one deferred completion / one PollOne + drain)
	hold(on bool)  // make the transport not writable / writable again
	wire() []byte  // everything the peer received so far
	idle() bool    // nothing left to do without new events
	real() bool
}

type c17X struct{ t *xport.Transport }

func (x *c17X) feed(b []byte) { x.t.Feed(b) }
func (x *c17X) step()         { x.t.PumpOne() }
func (x *c17X) hold(on bool) {
	if on {
		x.t.HoldWrites = true
	} else {
		x.t.ReleaseWrites()
	}
}
func (x *c17X) wire() []byte { return x.t.Written }
func (x *c17X) idle() bool   { return x.t.DeferredLen() == 0 && x.t.HeldWrites() == 0 }
func (x *c17X) real() bool   { return false }

type c17R struct {
	ioc  *sonic.IO
	peer int
	got  []byte
}

func (x *c17R) feed(b []byte) { _, _ = rawpeer.WriteSome(x.peer, b) }
func (x *c17R) step() {
	_, _ = x.ioc.PollOne()
	d, _, _ := rawpeer.Drain(x.peer, 1<<24)
	x.got = append(x.got, d...)
}
func (x *c17R) hold(bool)    {}
func (x *c17R) wire() []byte { return x.got }
func (x *c17R) idle() bool   { return x.ioc.Pending() == 0 }
func (x *c17R) real() bool   { return true }

// c17Connect performs a real handshake against a raw server and returns the client stream plus the raw
// server-side descriptor.
func c17Connect(c *vf.Case, ioc *sonic.IO) (*websocket.Stream, int, bool) {
	lfd, port, err := rawpeer.Listen4()
	if err != nil {
		c.Failf("harness-setup", "listen: %v", err)
		return nil, -1, false
	}
	defer syscall.Close(lfd)
	type res struct {
		fd  int
		err error
	}
	ch := make(chan res, 1)
	go func() {
		fd, _, err := rawpeer.Accept(lfd)
		if err != nil {
			syscall.Close(lfd) // refuse the queued connection: the client's handshake then fails instead of waiting
			ch <- res{-1, fmt.Errorf("accept: %w", err)}
			return
		}
		ok := false
		defer func() {
			if !ok {
				rawpeer.Reset(fd)
			}
		}()
		var req []byte
		buf := make([]byte, 4096)
		for !bytes.Contains(req, []byte("\r\n\r\n")) {
			if !rawpeer.WaitReadable(fd, 5000) {
				ch <- res{-1, fmt.Errorf("no request")}
				return
			}
			n, err := syscall.Read(fd, buf)
			if err != nil && err != syscall.EAGAIN {
				ch <- res{-1, err}
				return
			}
			if n > 0 {
				req = append(req, buf[:n]...)
			}
		}
		hr, err := http.ReadRequest(bufio.NewReader(bytes.NewReader(req)))
		if err != nil {
			ch <- res{-1, err}
			return
		}
		resp := "HTTP/1.1 101 Switching Protocols\r\nUpgrade: websocket\r\nConnection: Upgrade\r\nSec-WebSocket-Accept: " + c18Accept(hr.Header.Get("Sec-WebSocket-Key")) + "\r\n\r\n"
		_, _ = rawpeer.WriteSome(fd, []byte(resp))
		_ = syscall.SetsockoptInt(fd, syscall.IPPROTO_TCP, syscall.TCP_NODELAY, 1) // no Nagle delays on the peer's small frames
		ok = true
		ch <- res{fd, nil}
	}()
	s, err := websocket.NewWebsocketStream(ioc, nil, websocket.RoleClient)
	if err != nil {
		c.Failf("harness-setup", "%v", err)
		return nil, -1, false
	}
	var herr error
	c.Bounded("handshake-never-returns", 40*time.Second, func() {
		herr = s.Handshake("ws://" + net.JoinHostPort("127.0.0.1", fmt.Sprint(port)) + "/")
	})
	r := <-ch
	if herr != nil || r.err != nil {
		c.Failf("harness-setup", "handshake: client err=%v server err=%v", herr, r.err)
		if r.fd >= 0 {
			syscall.Close(r.fd)
		}
		return nil, -1, false
	}
	return s, r.fd, true
}

// c17Burst: one transport read brings in dozens of complete frames, the application re-arms its read from inside the
// handler every time, an application write is in flight now and then, and then the peer falls silent: every frame
// that arrived is delivered, once, without anything further from the peer.
func c17Burst(c *vf.Case) {
	r := c.Rng
	s, t := newWS(c)
	if s == nil {
		return
	}
	t.DeferReads = r.Bool()
	t.DeferWrites = r.Bool()
	n := r.Range(33, 150)
	var wire []byte
	var want [][]byte
	for i := 0; i < n; i++ {
		p := asciiBytes(r, r.Range(0, 12))
		want = append(want, p)
		wire = append(wire, wsref.Frame{Fin: true, Opcode: wsref.OpText, Payload: p}.Encode()...)
	}
	delivered := 0
	var rerr error
	useMsg := r.Bool()
	buf := make([]byte, 256)
	var arm func()
	arm = func() {
		if useMsg {
			s.AsyncNextMessage(buf, func(err error, k int, _ websocket.MessageType) {
				if err != nil {
					rerr = err
					return
				}
				if delivered < n && !bytes.Equal(buf[:k], want[delivered]) {
					rerr = fmt.Errorf("message %d differs", delivered)
					return
				}
				delivered++
				if delivered < n {
					arm()
				}
			})
			return
		}
		s.AsyncNextFrame(func(err error, f websocket.Frame) {
			if err != nil {
				rerr = err
				return
			}
			if delivered < n && !bytes.Equal(f.Payload(), want[delivered]) {
				rerr = fmt.Errorf("frame %d differs", delivered)
				return
			}
			delivered++
			if delivered < n {
				arm()
			}
		})
	}
	arm()
	t.Pump()
	writes, wdone := 0, 0
	if r.Bool() {
		writes = 1
		s.AsyncWrite([]byte("in flight"), websocket.TypeText, func(error) { wdone++ })
	}
	t.Feed(wire) // everything in one transport read
	for i := 0; i < 10*n+100 && (delivered < n || wdone < writes) && rerr == nil; i++ {
		if t.Pump() == 0 {
			break // the transport has nothing more to deliver and the peer stays silent
		}
	}
	c.Count("frame_bursts", 1)
	c.Count("frames_in_bursts", n)
	if rerr != nil {
		c.Failf("burst-read-error/xport", "burst of %d frames in one transport read (message API: %v): %v after %d deliveries", n, useMsg, rerr, delivered)
		return
	}
	if delivered != n {
		c.Failf("buffered-frames-not-delivered/xport", "burst of %d complete frames in one transport read, read re-armed from inside every handler (message API: %v), peer silent afterwards: only %d were delivered, %d bytes of the burst were never handed to a callback", n, useMsg, delivered, len(wire))
		return
	}
	if wdone != writes {
		c.Failf("callback-never-invoked/AsyncWrite/xport", "the write in flight during the burst completed %d times", wdone)
	}
}

// c17CancelledWrite: an asynchronous write (of an application message, of the Pong the read path owes, or of the
// client's Close frame) is parked
// on a transport that is not writable and is then cancelled (ErrCancelled, nothing accepted) - what Cancel() on the
// descriptor does. The stream stays usable. Every callback involved runs exactly once, and whatever reaches the wire
// afterwards parses into whole masked frames in which no frame is repeated: a frame whose write was reported as failed
// may still go out with the next flush (its bytes were already serialized) or never, but not twice; a write that
// reported success is on the wire exactly once; the order of submission is kept.
func c17CancelledWrite(c *vf.Case) {
	r := c.Rng
	s, t := newWS(c)
	if s == nil {
		return
	}
	t.DeferWrites = r.Bool()
	t.DeferReads = r.Bool()
	serial := 0
	uniq := func(tag string) []byte {
		serial++
		return append([]byte(fmt.Sprintf("<%s-%d-%d>", tag, c.Index, serial)), asciiBytes(r, r.Range(0, 200))...)
	}
	type sub struct {
		what    string
		opcode  byte
		payload []byte
		calls   int
		err     error
	}
	var subs []*sub
	write := func(what string) *sub {
		x := &sub{what: what, opcode: wsref.OpBinary, payload: uniq("w")}
		subs = append(subs, x)
		c.Logf("%s: AsyncWrite %d bytes", what, len(x.payload))
		s.AsyncWrite(x.payload, websocket.TypeBinary, func(e error) { x.calls++; x.err = e })
		return x
	}
	rounds := r.Range(1, 3)
	readCalls, readArmed := 0, false
	for round := 0; round < rounds && !c.Failed(); round++ {
		t.HoldWrites = true
		viaPing := r.Chance(1, 3)
		var first *sub
		if viaPing {
			// the read path owes a Pong: its flush is the write that gets parked
			first = &sub{what: "Pong owed for a Ping", opcode: wsref.OpPong, payload: append([]byte(fmt.Sprintf("<ping-%d-%d>", c.Index, round)), asciiBytes(r, r.Intn(80))...), calls: 1}
			subs = append(subs, first)
			t.Feed(wsref.Frame{Fin: true, Opcode: wsref.OpPing, Payload: first.payload}.Encode())
			if !readArmed {
				readArmed = true
				s.AsyncNextFrame(func(error, websocket.Frame) { readCalls++; readArmed = false })
			}
			t.Pump()
			c.Logf("round %d: Ping fed with a read armed; the Pong's write is parked (held writes: %d)", round, t.HeldWrites())
		} else if round == rounds-1 && r.Chance(1, 3) {
			// the parked write carries the client's Close frame
			reason := fmt.Sprintf("bye-%d-%d", c.Index, round)
			x := &sub{what: fmt.Sprintf("round %d: AsyncClose (parked)", round), opcode: wsref.OpClose, payload: wsref.ClosePayload(1000, reason)}
			subs = append(subs, x)
			first = x
			c.Logf("%s", x.what)
			s.AsyncClose(websocket.CloseCode(1000), reason, func(e error) { x.calls++; x.err = e })
		} else {
			first = write(fmt.Sprintf("round %d: first write (parked)", round))
		}
		t.Pump()
		if t.HeldWrites() != 1 {
			c.Count("cancelled_write_probes_without_a_parked_write", 1)
			t.ReleaseWrites()
			t.Pump()
			continue
		}
		var behind []*sub
		for i := 0; i < r.Intn(3); i++ {
			behind = append(behind, write(fmt.Sprintf("round %d: queued behind the parked write", round)))
		}
		t.Pump()
		n := t.CancelWrites()
		t.Pump()
		c.Logf("round %d: %d parked write(s) cancelled", round, n)
		c.Count("asynchronous_writes_cancelled", n)
		if t.HeldWrites() > 1 {
			c.Failf("more-than-one-write-in-flight", "after a cancelled write %d asynchronous writes are on the transport at the same time", t.HeldWrites())
			return
		}
		// the transport is writable again; whatever the stream still wants to send goes out, then one more write
		t.ReleaseWrites()
		for i := 0; i < 50 && (t.Pump() > 0 || t.HeldWrites() > 0); i++ {
			t.ReleaseWrites()
		}
		// transport writable, nothing in flight, no new operation yet: every write submitted so far has completed
		for _, x := range subs {
			if x.calls != 1 {
				key := "callback-dropped"
				if x.calls > 1 {
					key = "callback-invoked-twice"
				}
				c.Failf(key+"/AsyncWrite/around-a-cancelled-write", "%s: callback invoked %d times (err=%v) once the transport was writable again and idle, before any further operation", x.what, x.calls, x.err)
				return
			}
		}
		last := write(fmt.Sprintf("round %d: write after the cancellation", round))
		s.AsyncFlush(func(error) {})
		for i := 0; i < 50 && (t.Pump() > 0 || t.HeldWrites() > 0); i++ {
			t.ReleaseWrites()
		}
		if last.calls != 1 {
			c.Failf("callback-dropped/AsyncWrite/after-a-cancelled-write", "%s: callback invoked %d times", last.what, last.calls)
			return
		}
		_ = behind
	}
	for _, x := range subs {
		if x.calls != 1 {
			key := "callback-dropped"
			if x.calls > 1 {
				key = "callback-invoked-twice"
			}
			c.Failf(key+"/AsyncWrite/around-a-cancelled-write", "%s: callback invoked %d times (err=%v)", x.what, x.calls, x.err)
			return
		}
	}
	frames, rest, st := wsref.ParseAll(t.Written, -1)
	if st != wsref.OK || len(rest) != 0 {
		c.Failf("wire-does-not-parse-into-whole-frames/after-a-cancelled-write", "%d wire bytes: %d whole frames, then %d bytes that are no frame", len(t.Written), len(frames), len(rest))
		return
	}
	pos := map[int]int{}
	for fi, f := range frames {
		if !f.Masked {
			c.Failf("frame-not-masked/after-a-cancelled-write", "wire frame %d is not masked", fi)
			return
		}
		found := -1
		for si, x := range subs {
			if f.Opcode == x.opcode && bytes.Equal(f.Payload, x.payload) {
				found = si
			}
		}
		if found < 0 {
			if f.Opcode == wsref.OpClose {
				continue
			}
			c.Failf("unexpected-frame-on-wire/after-a-cancelled-write", "wire frame %d (opcode %d, %d bytes) is none of the frames submitted", fi, f.Opcode, len(f.Payload))
			return
		}
		if prev, dup := pos[found]; dup {
			c.Failf("frame-repeated-on-wire/after-a-cancelled-write", "%s is on the wire twice (wire frames %d and %d of %d)", subs[found].what, prev, fi, len(frames))
			return
		}
		pos[found] = fi
	}
	lastPos := -1
	for si, x := range subs {
		p, on := pos[si]
		if !on {
			if x.err == nil && x.opcode != wsref.OpPong {
				c.Failf("write-reported-success-not-on-wire/after-a-cancelled-write", "%s completed without error but its frame is not on the wire", x.what)
				return
			}
			continue
		}
		if p < lastPos {
			c.Failf("frames-out-of-submission-order/after-a-cancelled-write", "%s is on the wire before a frame submitted earlier", x.what)
			return
		}
		lastPos = p
	}
	c.Count("cancelled_write_probes", 1)
	c.Count("frames_on_wire_after_cancelled_writes", len(frames))
}

func runC17(c *vf.Case) {
	if c.Index%25 == 17 {
		c17CancelledWrite(c)
		c.NonTrivial(fmt.Sprintf("cancelled-write/%d", c.Index))
		return
	}
	if c.Index%25 == 11 {
		c17Burst(c)
		c.NonTrivial(fmt.Sprintf("burst/%d", c.Index))
		return
	}
	r := c.Rng
	var s *websocket.Stream
	var tr c17Transport
	realSock := c.Index%4 == 3
	if realSock {
		ioc := sonic.MustIO()
		defer ioc.Close()
		st, fd, ok := c17Connect(c, ioc)
		if !ok {
			return
		}
		// the raw server end is closed first and with an RST, so neither end lingers in TIME_WAIT (a thorough
		// run opens ~100k connections; FIN closes would exhaust the ephemeral port range)
		defer st.CloseNextLayer()
		defer rawpeer.Reset(fd)
		s, tr = st, &c17R{ioc: ioc, peer: fd}
	} else {
		st, t := newWS(c)
		if st == nil {
			return
		}
		t.DeferReads = true
		t.DeferWrites = true
		s, tr = st, &c17X{t: t}
	}
	var cbs []*c17CB
	newCB := func(what string) *c17CB {
		cb := &c17CB{what: what}
		cbs = append(cbs, cb)
		return cb
	}
	var readCB, writeCB, closeCB *c17CB // in flight
	okWritesDone := 0
	var appFrames []c16Expect // application frames in submission order
	var pongs [][]byte        // payloads of pings received while active, in arrival order
	closeSent, peerClosed, held := false, false, false
	quiescing := false
	overlaps, ctlWhileWrite := 0, 0
	tooBig, tooBigWhileWrite := 0, 0
	buf := make([]byte, 8192)
	var shape strings.Builder
	closeCodeSent := uint16(0)

	var armRead func()
	onFrame := func(cur *c17CB, err error, f websocket.Frame) {
		cur.calls++
		cur.err = err
		if readCB == cur {
			readCB = nil
		}
		c.Logf("    <- %s completes err=%v (call#%d)", cur.what, err, cur.calls)
		if cur.calls > 1 {
			return // reported at the end as invoked twice
		}
		if err == nil && len(f) >= 2 {
			switch f.Opcode() {
			case websocket.OpcodePing:
				if s.State() == websocket.StateActive || !closeSent {
					pongs = append(pongs, append([]byte(nil), f.Payload()...))
				}
				if writeCB != nil {
					ctlWhileWrite++
				}
			case websocket.OpcodeClose:
				peerClosed = true
			}
		}
		if err == nil && !peerClosed && !quiescing && r.Chance(3, 4) {
			armRead() // re-arm from inside the callback: the read path flushes owed control replies first
		}
	}
	armRead = func() {
		if readCB != nil || peerClosed {
			return
		}
		if writeCB != nil {
			overlaps++
		}
		if r.Bool() {
			readCB = newCB("AsyncNextFrame")
			cur := readCB
			c.Logf("  AsyncNextFrame (write in flight: %v)", writeCB != nil)
			s.AsyncNextFrame(func(err error, f websocket.Frame) { onFrame(cur, err, f) })
		} else {
			readCB = newCB("AsyncNextMessage")
			cur := readCB
			c.Logf("  AsyncNextMessage (write in flight: %v)", writeCB != nil)
			s.SetControlCallback(func(mt websocket.MessageType, p []byte) {
				if mt == websocket.TypePing && !closeSent {
					pongs = append(pongs, append([]byte(nil), p...))
					if writeCB != nil {
						ctlWhileWrite++
					}
				}
				if mt == websocket.TypeClose {
					peerClosed = true
				}
			})
			s.AsyncNextMessage(buf, func(err error, n int, _ websocket.MessageType) {
				cur.calls++
				cur.err = err
				if readCB == cur {
					readCB = nil
				}
				c.Logf("    <- AsyncNextMessage completes err=%v n=%d (call#%d)", err, n, cur.calls)
				if errors.Is(err, websocket.ErrMessageTooBig) {
					// the library answers a message that does not fit the caller's buffer with a Close of its own,
					// queued behind whatever write is in flight: from here on the stream is closing
					closeSent = true
					tooBig++
					if writeCB != nil {
						tooBigWhileWrite++
					}
				}
				if err == nil && !peerClosed && !quiescing && r.Chance(3, 4) {
					armRead()
				}
			})
		}
	}
	startWrite := func() {
		if closeSent || peerClosed {
			return
		}
		closeOnly := writeCB != nil // an application write is in flight: only AsyncClose may join it
		if closeOnly && !r.Chance(1, 4) {
			return
		}
		if readCB != nil {
			overlaps++
		}
		// wireCheck: when a write-type callback reports success its frame must already have been handed to the
		// transport (on the scripted transport: be in Written; on the real socket: be readable at the peer)
		wireCheck := func(cb *c17CB, isApp, isClose bool) {
			if x, ok := tr.(*c17R); ok {
				d, _, _ := rawpeer.Drain(x.peer, 1<<24)
				x.got = append(x.got, d...)
			}
			frames, _, _ := wsref.ParseAll(tr.wire(), -1)
			apps, closes := 0, 0
			for _, f := range frames {
				switch f.Opcode {
				case wsref.OpClose:
					closes++
				case wsref.OpPong, wsref.OpPing:
				default:
					apps++
				}
			}
			if isApp && apps < okWritesDone {
				c.Failf("write-callback-success-before-frame-written/"+strings.SplitN(cb.what, "(", 2)[0], "%s: callback reported success but only %d of the %d successfully completed application frames have reached the transport", cb.what, apps, okWritesDone)
			}
			if isClose && closes == 0 {
				c.Failf("write-callback-success-before-frame-written/AsyncClose", "AsyncClose: callback reported success but no Close frame has reached the transport")
			}
		}
		done := func(cb *c17CB) func(error) {
			return func(err error) {
				cb.calls++
				cb.err = err
				if writeCB == cb {
					writeCB = nil
				}
				if closeCB == cb {
					closeCB = nil
				}
				c.Logf("    <- %s completes err=%v (call#%d)", cb.what, err, cb.calls)
				if err == nil && cb.calls == 1 {
					isApp := strings.HasPrefix(cb.what, "AsyncWrite")
					isClose := cb.what == "AsyncClose"
					if isApp {
						okWritesDone++
					}

					if isApp || isClose {
						wireCheck(cb, isApp, isClose)
					}
				}
			}
		}
		k := r.Intn(10)
		if closeOnly {
			k = 9
			overlaps++
		}
		switch {
		case k <= 5:
			payload := asciiBytes(r, []int{0, 1, 50, 125, 126, 900}[r.Intn(6)])
			if r.Chance(1, 25) {
				payload = asciiBytes(r, r.Range(129<<10, 400<<10)) // a message of hundreds of kilobytes
			}
			writeCB = newCB(fmt.Sprintf("AsyncWrite(%d)", len(payload)))
			appFrames = append(appFrames, c16Expect{wsref.OpText, true, payload, writeCB.what})
			c.Logf("  %s (read in flight: %v)", writeCB.what, readCB != nil)
			s.AsyncWrite(payload, websocket.TypeText, done(writeCB))
			shape.WriteString("w")
		case k <= 7:
			payload := r.Bytes(r.Intn(100))
			f := s.AcquireFrame()
			f.SetFIN().SetBinary().SetPayload(payload)
			writeCB = newCB(fmt.Sprintf("AsyncWriteFrame(%d)", len(payload)))
			appFrames = append(appFrames, c16Expect{wsref.OpBinary, true, payload, writeCB.what})
			c.Logf("  %s (read in flight: %v)", writeCB.what, readCB != nil)
			s.AsyncWriteFrame(f, done(writeCB))
			shape.WriteString("f")
		case k == 8:
			writeCB = newCB("AsyncFlush")
			c.Logf("  AsyncFlush (read in flight: %v)", readCB != nil)
			s.AsyncFlush(done(writeCB))
			shape.WriteString("F")
		default:
			closeCB = newCB("AsyncClose")
			closeSent = true
			closeCodeSent = 1000
			c.Logf("  AsyncClose (read in flight: %v, write in flight: %v)", readCB != nil, writeCB != nil)
			s.AsyncClose(websocket.CloseNormal, "bye", done(closeCB))
			shape.WriteString("c")
		}
	}
	if r.Chance(1, 3) {
		// a session that starts with the blocking API (a login sent right after the handshake) and goes on asynchronously
		payload := asciiBytes(r, []int{0, 5, 126}[r.Intn(3)])
		var err error
		if r.Bool() {
			f := s.AcquireFrame()
			f.SetFIN().SetText().SetPayload(payload)
			err = s.WriteFrame(f)
			appFrames = append(appFrames, c16Expect{wsref.OpText, true, payload, "blocking WriteFrame (login)"})
		} else {
			err = s.Write(payload, websocket.TypeBinary)
			appFrames = append(appFrames, c16Expect{wsref.OpBinary, true, payload, "blocking Write (login)"})
		}
		c.Logf("  blocking login write of %d bytes -> %v", len(payload), err)
		if err != nil {
			c.Failf("blocking-write-failed-on-healthy-transport", "blocking write of %d bytes right after the handshake: %v", len(payload), err)
		}
		shape.WriteString("L")
		c.Count("sessions_starting_with_a_blocking_write", 1)
	}
	steps := r.Range(6, 40)
	for st := 0; st < steps && !c.Failed() && !peerClosed; st++ {
		switch k := r.Intn(12); {
		case k <= 1:
			armRead()
		case k <= 3:
			startWrite()
		case k == 4 && r.Chance(1, 8) && !closeSent:
			p := asciiBytes(r, len(buf)+r.Range(1, 60))
			c.Logf("  peer sends a text message of %d bytes, more than a message read can take (write in flight: %v)", len(p), writeCB != nil)
			tr.feed(wsref.Frame{Fin: true, Opcode: wsref.OpText, Payload: p}.Encode())
			shape.WriteString("D")
		case k == 4:
			p := asciiBytes(r, r.Intn(60))
			c.Logf("  peer sends a text message of %d bytes", len(p))
			tr.feed(wsref.Frame{Fin: true, Opcode: wsref.OpText, Payload: p}.Encode())
			shape.WriteString("d")
		case k <= 6:
			p := r.Bytes(r.Intn(40))
			c.Logf("  peer sends a ping of %d bytes (write in flight: %v)", len(p), writeCB != nil)
			tr.feed(wsref.Frame{Fin: true, Opcode: wsref.OpPing, Payload: p}.Encode())
			shape.WriteString("p")
		case k == 7 && !held:
			c.Logf("  transport becomes not writable")
			tr.hold(true)
			held = true
		case k == 8 && held:
			c.Logf("  transport becomes writable again")
			tr.hold(false)
			held = false
		case k == 9 && r.Chance(1, 3):
			c.Logf("  peer sends Close")
			tr.feed(wsref.Frame{Fin: true, Opcode: wsref.OpClose, Payload: wsref.ClosePayload(1000, "")}.Encode())
			shape.WriteString("C")
		default:
			tr.step()
		}
	}
	if c.Failed() {
		return
	}
	// bounded quiescence: the transport is healthy and writable, the loop is run
	quiescing = true
	if held {
		tr.hold(false)
	}
	c.Logf("quiescence: read in flight=%v write in flight=%v", readCB != nil, writeCB != nil)
	if readCB != nil {
		// an armed read needs something to read: the peer sends one more message
		tr.feed(wsref.Frame{Fin: true, Opcode: wsref.OpText, Payload: []byte("last")}.Encode())
	}
	for i := 0; i < 3000 && (writeCB != nil || closeCB != nil || readCB != nil || !tr.idle()); i++ {
		tr.step()
		if tr.real() && i > 50 {
			time.Sleep(100 * time.Microsecond) // loopback TCP is not instantaneous (delayed ACKs, softirq scheduling)
		}
		if readCB != nil && i%500 == 499 {
			tr.feed(wsref.Frame{Fin: true, Opcode: wsref.OpText, Payload: []byte("more")}.Encode())
		}
	}
	for i := 0; i < 20; i++ {
		tr.step()
	}
	// owed control replies that no read has flushed yet are flushed explicitly before the wire is judged
	if !c.Failed() && writeCB == nil && closeCB == nil {
		fl := newCB("AsyncFlush")
		s.AsyncFlush(func(err error) { fl.calls++; fl.err = err })
		for i := 0; i < 3000 && fl.calls == 0; i++ {
			tr.step()
			if tr.real() && i > 50 {
				time.Sleep(100 * time.Microsecond)
			}
		}
		for i := 0; i < 20; i++ {
			tr.step()
		}
	}
	variant := "xport"
	if tr.real() {
		variant = "adapter"
	}
	for _, cb := range cbs {
		if cb.calls == 0 {
			if x, ok := tr.(*c17R); ok {
				c.Logf("debug: IO.Pending()=%d stream.Pending()=%d state=%v poll(2) on client fd: %#x", x.ioc.Pending(), s.Pending(), s.State(), rawpeer.Ready(s.RawFd(), 0x1|0x4))
			}
			c.Failf("callback-dropped/"+strings.SplitN(cb.what, "(", 2)[0]+"/"+variant, "%s: callback never invoked although the transport is healthy and the loop was run (other operation in flight during its lifetime: see script)", cb.what)
			return
		}
		if cb.calls > 1 {
			c.Failf("callback-invoked-twice/"+strings.SplitN(cb.what, "(", 2)[0]+"/"+variant, "%s: callback invoked %d times", cb.what, cb.calls)
			return
		}
	}
	// the wire
	frames, rest, st := wsref.ParseAll(tr.wire(), -1)
	if st != wsref.OK || len(rest) != 0 {
		c.Failf("wire-does-not-parse-into-whole-frames/"+variant, "the peer received %d bytes that do not parse into whole frames (%d left over): bytes of different frames interleaved or repeated", len(tr.wire()), len(rest))
		return
	}
	ai, pi, closes := 0, 0, 0
	for i, f := range frames {
		switch {
		case f.Opcode == wsref.OpClose:
			closes++
		case f.Opcode == wsref.OpPong:
			if pi >= len(pongs) || !bytes.Equal(f.Payload, pongs[pi]) {
				c.Failf("pong-duplicated-or-wrong/"+variant, "wire frame %d is a Pong that does not match the next owed one (%d of %d owed pongs seen so far)", i, pi, len(pongs))
				return
			}
			pi++
		default:
			if ai >= len(appFrames) || f.Opcode != appFrames[ai].op || !bytes.Equal(f.Payload, appFrames[ai].payload) {
				c.Failf("application-frame-repeated-or-reordered/"+variant, "wire frame %d (op=%d, %d bytes) is not the next application frame in submission order (%d of %d seen so far): a frame was repeated, lost or reordered", i, f.Opcode, len(f.Payload), ai, len(appFrames))
				return
			}
			ai++
		}
	}
	// application frames whose callback reported success must be on the wire; owed pongs too
	okWrites := 0
	for _, cb := range cbs {
		if (strings.HasPrefix(cb.what, "AsyncWrite(") || strings.HasPrefix(cb.what, "AsyncWriteFrame(")) && cb.err == nil {
			okWrites++
		}
	}
	if ai < okWrites {
		c.Failf("application-frame-missing/"+variant, "%d application writes reported success, %d application frames reached the peer", okWrites, ai)
		return
	}
	if pi < len(pongs) && !peerClosed && !closeSent {
		c.Failf("pong-missing/"+variant, "%d pings were received while active, %d pongs reached the peer", len(pongs), pi)
		return
	}
	if closes > 1 {
		c.Failf("more-than-one-close/"+variant, "%d Close frames on the wire", closes)
	}
	_ = closeCodeSent
	c.Count("scripts", 1)
	c.Count("scripts_"+variant, 1)
	c.Count("read_write_overlaps", overlaps)
	c.Count("control_frames_handled_while_a_write_was_in_flight", ctlWhileWrite)
	c.Count("callbacks_checked", len(cbs))
	c.Count("messages_too_big_for_the_read_buffer", tooBig)
	c.Count("messages_too_big_while_a_write_was_in_flight", tooBigWhileWrite)
	c.Count("wire_frames", len(frames))
	for _, cb := range cbs {
		c.Cover("callbacks_by_api", strings.SplitN(cb.what, "(", 2)[0]+"/"+variant)
	}
	if overlaps > 0 {
		c.NonTrivial(fmt.Sprintf("%s/o%d/c%d/%x", variant, min(overlaps, 6), min(ctlWhileWrite, 4), vf.HashString(shape.String())))
	}
}

func init() {
	register(&vf.Check{
		ID:        "C17",
		Technique: "runtime monitor: callback ledger over every asynchronous WebSocket API + independent parser over the bytes the peer received, for scripts that place peer events and application calls relative to poll cycles and transport writability; scripted transport (deferred completions, unwritable periods) at scale and the real AsyncAdapter on a loopback socket obtained through a real handshake",
		Rule: "one case in 25 parks an asynchronous write (an application message, the Pong owed for a Ping, or the client's Close) on a transport that is not writable, queues 0-2 writes behind it and cancels the parked write (ErrCancelled, nothing accepted), then writes again: every callback exactly once, the wire parses into whole masked frames, no submitted frame is on it twice, a write that reported success exactly once, submission order kept; a third of the sessions start with a blocking Write/WriteFrame; one write in 25 carries 129-400 KB; one case in 25 is a burst of 33-150 complete frames in one transport read with the read re-armed from every handler and a silent peer afterwards; " +
			"cases = scripts of 6-40 steps: arm a read (AsyncNextFrame / AsyncNextMessage, re-armed from its own callback 3 times out of 4), start a write (AsyncWrite, AsyncWriteFrame, AsyncFlush, AsyncClose; one application write at a time), peer sends data / ping / close, the transport becomes not writable / writable again, one unit of progress (one deferred completion on the scripted transport; PollOne + peer drain on the real socket); 3 of 4 cases on the scripted transport, 1 of 4 on the real adapter after a real handshake; every script ends with a bounded quiescence; " +
			"non-trivial = a read and a write were in flight together at least once; distinct = (variant, overlaps, control frames handled during a write, shape)",
		Assumptions: []string{
			"one application read and one application write in flight, as the statement says, plus an AsyncClose that may join them; automatic Pong/Close replies are flushed by the read path concurrently",
			"when a write-type callback reports success its frame must already have reached the transport (scripted transport) / the peer's socket (real adapter)",
			"only callbacks of operations started while the transport is healthy are owed; after the peer's Close outstanding operations may complete with an error - still exactly once",
			"application messages stay <= 900 bytes on the real adapter (net.Conn.Write blocks the loop when the socket is full)",
			"the relative order of Pongs and application frames is C08's subject; here each sequence must be complete and in its own order",
		},
		NumCases: func(tier, build string) int {
			if build == "race" {
				return 20000
			}
			return vf.Tiered(tier, 3000, 400000)
		},
		Builds: func(tier string) []string {
			if tier == "thorough" {
				return []string{"plain", "race"}
			}
			return []string{"plain"}
		},
		Floor: func(tier string) int { return vf.Tiered(tier, 50, 1000) },
		Run:   runC17,
	})
}
