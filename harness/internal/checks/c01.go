package checks

import (
	"fmt"
	"os"
	"os/exec"
	"sort"
	"strings"
	"time"

	"verif/internal/sim"
	"verif/internal/vf"
)

// C01 - exactly-once completion of every asynchronous operation.
//
// Oracle: the shadow ledger in sim (count per operation, Cancel clause, no callback after Close), the
// poll(2) readiness oracle (lost completions, on logical poll cycles) and a bounded quiescence at the end
// of every script after the harness has made every remaining operation completable.

func c01Script(c *vf.Case, w *sim.World, lostKeyPrefix string) {
	r := c.Rng
	nobj := r.Range(2, 6)
	kinds := []sim.Kind{sim.KConnDialed, sim.KConnAccepted, sim.KAdapter, sim.KFifoR, sim.KFifoW, sim.KUDP, sim.KListener, sim.KRegFile, sim.KConnUDP}
	for i := 0; i < nobj; i++ {
		k := kinds[r.Intn(len(kinds))]
		small := r.Bool() && k != sim.KAdapter
		if _, err := w.NewObj(k, small); err != nil {
			c.Failf("harness-setup", "cannot create %v: %v", k, err)
			return
		}
	}
	pickOpen := func(pred func(o *sim.Obj) bool) *sim.Obj {
		var cands []*sim.Obj
		for _, o := range w.Objs {
			if !o.Closed && !o.Closing && (pred == nil || pred(o)) {
				cands = append(cands, o)
			}
		}
		if len(cands) == 0 {
			return nil
		}
		return cands[r.Intn(len(cands))]
	}
	streamLike := func(o *sim.Obj) bool { return o.FD != nil }
	start := func() {
		o := pickOpen(nil)
		if o == nil {
			return
		}
		beh := sim.BNone
		if r.Chance(1, 2) {
			beh = sim.Behaviour(r.Intn(int(sim.NumBehaviours)))
		}
		var target *sim.Obj
		if beh == sim.BCancelOther || beh == sim.BCancelRestartOther {
			target = pickOpen(func(t *sim.Obj) bool { return t != o && t.FD != nil })
		} else if beh == sim.BCloseOther || beh == sim.BDrainOther {
			target = pickOpen(func(t *sim.Obj) bool { return t != o })
		}
		forced := r.Chance(1, 3)
		switch o.Kind {
		case sim.KListener:
			w.StartAccept(o, beh, target, forced)
		case sim.KUDP:
			w.StartPacket(o, r.Intn(2), []int{1, 16, 512, 1472}[r.Intn(4)], beh, target, forced)
		case sim.KRegFile:
			// a regular file is always ready; started at the dispatch limit its registration is refused by epoll
			// and the operation completes (once) with that error - and so must the next one
			w.StartStream(o, r.Intn(2), false, []int{1, 7, 64}[r.Intn(3)], beh, target, forced)
		case sim.KFifoR:
			w.StartStream(o, 0, r.Chance(1, 4), []int{1, 7, 64, 512}[r.Intn(4)], beh, target, forced)
		case sim.KFifoW:
			w.StartStream(o, 1, r.Chance(1, 4), []int{1, 64, 4096, 9000}[r.Intn(4)], beh, target, forced)
		case sim.KAdapter:
			if r.Bool() {
				w.StartStream(o, 0, r.Chance(1, 4), []int{1, 7, 64, 512}[r.Intn(4)], beh, target, forced)
			} else {
				w.StartStream(o, 1, r.Chance(1, 4), []int{1, 64, 1024}[r.Intn(3)], beh, target, forced)
			}
		default:
			dir := r.Intn(2)
			if o.Rd != nil {
				dir = 1
			} else if o.Wr != nil {
				dir = 0
			}
			size := []int{1, 7, 64, 1024}[r.Intn(4)]
			if dir == 1 && o.Small && r.Bool() {
				size = 300000 // would-block in the middle
			}
			w.StartStream(o, dir, r.Chance(1, 3), size, beh, target, forced)
		}
	}
	peerAct := func() {
		o := pickOpen(func(o *sim.Obj) bool { return o.Peer >= 0 || o.Kind == sim.KListener })
		if o == nil {
			return
		}
		if o.Kind == sim.KListener {
			c.Logf("  peer connects to %s", o)
			_ = w.PeerConnect(o)
			return
		}
		switch k := r.Intn(12); {
		case k <= 5:
			n := []int{1, 10, 100, 5000}[r.Intn(4)]
			got := w.PeerWrite(o, n)
			c.Logf("  peer of %s writes %d bytes (%d taken)", o, n, got)
		case k <= 7:
			c.Logf("  peer of %s drains %d bytes", o, w.PeerDrain(o))
		case k == 8:
			c.Logf("  peer of %s half-closes", o)
			w.PeerShutdownWrite(o)
		case k == 9:
			c.Logf("  peer of %s closes / hangs up", o)
			w.PeerClose(o)
		case k == 10 && o.Kind != sim.KFifoR && o.Kind != sim.KFifoW && o.Kind != sim.KUDP && o.Kind != sim.KConnUDP:
			c.Logf("  peer of %s resets", o)
			w.PeerReset(o)
		default:
			if (o.Kind == sim.KConnUDP || o.Kind == sim.KUDP) && r.Chance(1, 2) {
				// a burst of small datagrams: a read-all on the connected socket then makes dozens of successful short reads
				// in a row before the queue is empty
				k := r.Range(20, 60)
				for i := 0; i < k; i++ {
					w.PeerWrite(o, r.Range(1, 4))
				}
				c.Logf("  peer of %s sends a burst of %d small datagrams", o, k)
				c.Count("datagram_bursts", 1)
				break
			}
			got := w.PeerWrite(o, 3)
			c.Logf("  peer of %s writes 3 bytes (%d taken)", o, got)
		}
	}
	// One script in three opens with a constructed batch: a victim with a read (no data: deferred) and a write
	// (registered at the dispatch limit, ready at once) both in flight, and another object whose handler cancels,
	// closes or cancel-restarts the victim, made ready so that both sit in the same epoll batch - in either order.
	if r.Chance(1, 3) {
		victim := pickOpen(func(o *sim.Obj) bool {
			return o.Kind == sim.KConnDialed || o.Kind == sim.KConnAccepted || o.Kind == sim.KAdapter
		})
		var killer *sim.Obj
		if victim != nil {
			killer = pickOpen(func(o *sim.Obj) bool {
				return o != victim && (o.Kind == sim.KConnDialed || o.Kind == sim.KConnAccepted || o.Kind == sim.KAdapter || o.Kind == sim.KFifoR || o.Kind == sim.KUDP || o.Kind == sim.KListener)
			})
		}
		if victim != nil && killer != nil {
			beh := []sim.Behaviour{sim.BCloseOther, sim.BCancelOther, sim.BCancelRestartOther, sim.BDrainOther}[r.Intn(4)]
			startKiller := func() {
				switch killer.Kind {
				case sim.KListener:
					w.StartAccept(killer, beh, victim, false)
					_ = w.PeerConnect(killer)
				case sim.KUDP:
					w.StartPacket(killer, 0, 16, beh, victim, false)
					w.EnsureUDPPeer(killer)
					w.PeerWrite(killer, 8)
				default:
					w.StartStream(killer, 0, false, 64, beh, victim, false)
					w.PeerWrite(killer, 10)
				}
			}
			startVictim := func() {
				w.StartStream(victim, 0, r.Chance(1, 4), 64, sim.BNone, nil, false)
				w.StartStream(victim, 1, r.Chance(1, 4), []int{1, 64, 1024}[r.Intn(3)], sim.BNone, nil, true)
				if r.Bool() || beh == sim.BDrainOther {
					w.PeerWrite(victim, 5) // the victim's read is ready in the same batch as well
				}
			}
			c.Logf("constructed batch: %s (read + write in flight) and %s whose handler acts on it", victim, killer)
			if r.Bool() {
				startKiller()
				startVictim()
			} else {
				startVictim()
				startKiller()
			}
			c.Count("constructed_batches_victim_with_read_and_write", 1)
			w.Poll()
		}
	}
	steps := r.Range(10, 60)
	for s := 0; s < steps && !c.Failed(); s++ {
		na := r.Range(1, 4)
		for a := 0; a < na && !c.Failed(); a++ {
			switch k := r.Intn(10); {
			case k <= 3:
				start()
			case k <= 7:
				peerAct()
			case k == 8:
				if o := pickOpen(streamLike); o != nil {
					w.Cancel(o)
				}
			default:
				if r.Chance(1, 3) {
					if o := pickOpen(nil); o != nil {
						w.Close(o)
					}
				} else {
					start()
				}
			}
		}
		if c.Failed() {
			return
		}
		w.Poll()
	}
	if c.Failed() {
		return
	}
	// make every remaining operation completable, then bounded quiescence
	c.Logf("final phase: peers close / connect / send so that every remaining operation can complete")
	makeCompletable := func() {
		for _, o := range append([]*sim.Obj(nil), w.Objs...) {
			if o.Closed || o.Closing {
				continue
			}
			switch o.Kind {
			case sim.KListener:
				if o.Rd != nil && len(o.Backlog) == 0 {
					_ = w.PeerConnect(o)
				}
			case sim.KUDP:
				if o.Rd != nil {
					w.EnsureUDPPeer(o)
					w.PeerWrite(o, 8)
				}
				if o.Wr != nil {
					w.PeerDrain(o)
				}
			case sim.KFifoR, sim.KFifoW:
				if o.Rd != nil || o.Wr != nil {
					w.PeerClose(o)
				}
			case sim.KConnUDP:
				if o.Rd != nil {
					if o.Peer >= 0 {
						w.PeerWrite(o, max(8, len(o.Rd.Buf))) // one datagram fills what a read-all still waits for
					} else {
						// the peer's port is closed: a datagram sent now comes back as ICMP port-unreachable, which
						// leaves ECONNREFUSED pending on the socket (EPOLLERR with nothing to read) and completes the read
						_, _ = o.FD.Write([]byte{1})
					}
				}
			default:
				// an RST completes pending reads and writes at once; a FIN would leave a write that sits behind a
				// closed window waiting for TCP's persist timer (wall-clock time, not poll cycles)
				if o.Rd != nil || o.Wr != nil {
					c.Logf("  final: peer of %s (fd %d) resets", o, o.Peer)
					w.PeerReset(o)
				}
			}
		}
	}
	for i := 0; i < 64 && len(w.InFlight()) > 0 && !c.Failed(); i++ {
		makeCompletable() // handlers may have re-issued operations: keep them completable
		w.Poll()
	}
	// A peer RST can be discarded by the kernel when our receive queue overflowed earlier (its sequence number is
	// then ahead of what we acknowledged); the connection is only torn down by our own zero-window probe, i.e. by a
	// kernel timer. Give such operations wall-clock time before calling them lost (bounded progress: 10 s).
	for i := 0; i < 200 && len(w.InFlight()) > 0 && !c.Failed(); i++ {
		time.Sleep(50 * time.Millisecond)
		makeCompletable()
		w.Poll()
		c.Count("final_phase_waits_for_kernel_timer", 1)
	}
	if len(w.InFlight()) > 0 && os.Getenv("VERIF_DEBUG_SS") != "" {
		out, _ := exec.Command("ss", "-tnoiepm").CombinedOutput()
		fmt.Println(string(out))
	}
	for _, op := range w.InFlight() {
		c.Failf("operation-never-completed/"+op.O.Kind.String()+"/"+op.Kind,
			"op%d %s on %s (open): callback never invoked although the peer made it completable and the loop ran %d more cycles over 10 s (last poll(2) revents: %#x)", op.ID, op.Kind, op.O, 264, op.LastRevents)
	}
}

func c01Stats(c *vf.Case, w *sim.World) {
	c.Count("operations_started", len(w.Ops))
	completed, cancelled, abandoned, deferred, overlap := 0, 0, 0, 0, 0
	kinds := map[string]bool{}
	for _, op := range w.Ops {
		if op.Calls > 0 {
			completed++
		} else if op.O.Closed {
			abandoned++
		}
		if op.ExpectCancel {
			cancelled++
		}
		if op.Deferred {
			deferred++
		}
		kinds[op.O.Kind.String()+"/"+op.Kind] = true
	}
	for _, o := range w.Objs {
		_ = o
	}
	c.Count("operations_completed", completed)
	c.Count("operations_cancelled_by_Cancel", cancelled)
	c.Count("operations_abandoned_by_Close", abandoned)
	c.Count("operations_deferred", deferred)
	c.Count("poll_cycles", w.Tick)
	c.Count("batches", w.Batches)
	c.Count("batches_with_ge2_ready_objects", w.BatchesGE2)
	c.Count("batches_with_stale_entry", w.BatchesStale)
	for k, v := range w.ByPath {
		c.Count("completions_via_"+k, v)
	}
	_ = overlap
	for k := range kinds {
		c.Cover("object_kind_x_operation", k)
	}
	c.Max("max_callback_nesting", int64(w.MaxDepth))
}

func runC01(c *vf.Case) {
	w, err := sim.NewWorld(c)
	if err != nil {
		c.Failf("harness-setup", "NewWorld: %v", err)
		return
	}
	defer w.Teardown()
	c01Script(c, w, "")
	c01Stats(c, w)
	if w.BatchesGE2 > 0 || w.BatchesStale > 0 || w.ByPath["cancel"] > 0 {
		var ks []string
		for _, o := range w.Objs {
			ks = append(ks, o.Kind.String())
		}
		sort.Strings(ks)
		c.NonTrivial(fmt.Sprintf("%s/b%d/s%d/c%d/i%d/d%d", strings.Join(ks, ","), w.BatchesGE2, w.BatchesStale, w.ByPath["cancel"], w.ByPath["inline"], w.ByPath["deferred"]))
	}
}

func init() {
	register(&vf.Check{
		ID:        "C01",
		Technique: "runtime monitor: shadow ledger of every asynchronous operation (recorded before the call, completed inside the wrapped callback) + poll(2) readiness oracle on logical poll cycles + bounded quiescence, over random scripts on real sockets/FIFOs whose peer ends are raw descriptors driven by the loop goroutine",
		Rule: "peers of datagram objects also send bursts of 20-60 small datagrams (read-alls that take dozens of successful short reads); " +
			"cases = scripts of 10-60 steps over 2-6 objects from {dialed TCP conn, accepted TCP conn, AsyncAdapter over net.TCPConn, FIFO read end, FIFO write end, regular file, UDP packet conn, connected UDP conn (Dial \"udp\"), listener} sharing one IO: start read/readAll/write/writeAll/accept/readFrom/writeTo (inline or forced to the deferred path by presetting IO.Dispatched), peer writes/drains/half-closes/closes/RSTs/hangs up/connects (1-4 actions before each PollOne so batches hold several ready descriptors), Cancel, Close, handlers that re-issue, cancel/close/cancel-and-re-arm/drain (non-blocking reads on the other object's descriptor) another object or cancel/close themselves; one script in three opens with a constructed batch (victim with a deferred read and a write registered at the dispatch limit + another object whose handler acts on it, both ready in one batch, either order); a completion carrying ErrWouldBlock is a violation; each script ends by making every remaining operation completable and polling up to 64 cycles; " +
			"non-trivial = a batch with >= 2 ready objects, a stale batch entry, or a completion through Cancel; distinct = (object kinds, counts of such batches and completion paths)",
		Assumptions: []string{
			"one read and one write in flight per object (the API's contract); generators respect it",
			"completion with (0, EOF) / ECONNRESET / EPIPE counts as a completion; an operation on an object closed before it completes may legitimately never complete",
			"the readiness oracle only obliges the library when poll(2) reports the deferred direction or HUP/ERR for three consecutive cycles, and only for non-*All operations",
			"AsyncAdapter writes stay small: net.Conn.Write blocks the single goroutine when the socket is full (by design of the adapter)",
			"kernel behaviour (epoll, poll(2), loopback TCP/UDP, FIFOs) is trusted",
		},
		NumCases: func(tier, build string) int {
			if build == "race" {
				return 30000
			}
			return vf.Tiered(tier, 2500, 400000)
		},
		Builds: func(tier string) []string {
			if tier == "thorough" {
				return []string{"plain", "race"}
			}
			return []string{"plain"}
		},
		Floor: func(tier string) int { return vf.Tiered(tier, 100, 2000) },
		Run:   runC01,
	})
}
