// Package checks registers one monitor per property.
package checks

import "verif/internal/vf"

var registry []*vf.Check

func register(c *vf.Check) { registry = append(registry, c.Fill()) }

func All() []*vf.Check { return registry }

func Get(id string) *vf.Check {
	for _, c := range registry {
		if c.ID == id {
			return c
		}
	}
	return nil
}
