package checks

import (
	"bytes"
	"errors"
	"fmt"
	"strings"
	"time"

	"github.com/talostrading/sonic/codec/websocket"
	"github.com/talostrading/sonic/sonicerrors"

	"verif/internal/vf"
	"verif/internal/wsref"
	"verif/internal/xport"
)

// C16 - every frame the client writes is well-formed and correctly masked.
//
// Oracle: wsref's strict parser over ALL bytes accepted by the transport + the list of submissions
// (application messages, caller-built frames, expected automatic replies).

type c16Expect struct {
	op      byte
	fin     bool
	payload []byte
	what    string
}

func c16Size(r *vf.Rand, max int) int {
	if max > 1<<20 && r.Chance(1, 4) {
		return r.Range(1<<20+1, 2<<20) // then the pooled frame goes back to carrying ordinary payloads
	}
	classes := []int{0, 1, 125, 126, 127, 200}
	if max >= 70000 {
		classes = append(classes, 65535, 65536)
	}
	classes = append(classes, max)
	if max >= 4100 && r.Chance(1, 5) {
		// just below, at and just above a power of two: where a buffer of that capacity is exactly full, with and
		// without the 2-14 header bytes
		n := (1 << r.Range(12, 16)) - r.Intn(20) + 4
		if n > max {
			n = 4096 - r.Intn(20) + 4
		}
		return n
	}
	if r.Chance(1, 3) {
		return r.Intn(min(max, 3000) + 1)
	}
	n := classes[r.Intn(len(classes))]
	if n > max {
		n = max
	}
	return n
}

// c16Extra is one more overlapping write with its completion count.
type c16Extra struct {
	what  string
	calls int
	err   error
}

func runC16(c *vf.Case) {
	r := c.Rng
	s, t := newWS(c)
	if s == nil {
		return
	}
	max := []int{125, 1000, 5000, 70000}[r.Intn(4)]
	if r.Chance(1, 25) {
		max = websocket.DefaultMaxMessageSize
	}
	huge := r.Chance(1, 150)
	if huge {
		max = 4 << 20 // the limit raised well above the default: messages of more than a megabyte are written
	}
	s.SetMaxMessageSize(max)
	t.WriteMax = []int{0, 0, 1, 3, 7, 100}[r.Intn(6)]
	if huge {
		t.WriteMax = []int{0, 0, 100000}[r.Intn(3)]
	}
	t.DeferWrites = r.Bool()
	c.Logf("max=%d transport accepts %d bytes/write deferred=%v", max, t.WriteMax, t.DeferWrites)
	var expect []c16Expect
	parsedOff, parsedFrames := 0, 0
	poolReuseLongShort, payloadless, partial, refused := 0, 0, 0, 0
	lastLen := -1
	var shape strings.Builder

	verify := func(after string) bool {
		// parse everything new on the wire
		for parsedOff < len(t.Written) {
			p, st := wsref.Parse(t.Written[parsedOff:], -1)
			if st != wsref.OK {
				c.Failf("wire-does-not-parse-into-whole-frames", "after %s: %d trailing bytes at offset %d do not form a complete frame (status %s, declared %d)", after, len(t.Written)-parsedOff, parsedOff, stName(st), p.DeclaredLen)
				return false
			}
			if parsedFrames >= len(expect) {
				c.Failf("unexpected-extra-frame-on-wire", "after %s: frame %d on the wire (%v, %d bytes) was never submitted - leftover bytes of an earlier frame?", after, parsedFrames, p.Frame, p.Size)
				return false
			}
			e := expect[parsedFrames]
			if !p.Masked {
				c.Failf("frame-not-masked", "after %s: frame %d (%s) has the mask bit clear", after, parsedFrames, e.what)
				return false
			}
			if !p.Minimal {
				c.Failf("length-not-minimally-encoded", "after %s: frame %d (%s) declares %d bytes with a %d-bit length", after, parsedFrames, e.what, p.DeclaredLen, p.LenEnc)
				return false
			}
			if p.Rsv1 || p.Rsv2 || p.Rsv3 {
				c.Failf("reserved-bits-set", "after %s: frame %d (%s) has reserved bits set", after, parsedFrames, e.what)
				return false
			}
			if p.Opcode != e.op || p.Fin != e.fin {
				c.Failf("frame-header-differs-from-submission", "after %s: frame %d on the wire is op=%d fin=%v, submission %d was %s (op=%d fin=%v): order changed or frames interleaved", after, parsedFrames, p.Opcode, p.Fin, parsedFrames, e.what, e.op, e.fin)
				return false
			}
			if !bytes.Equal(p.Payload, e.payload) {
				c.Failf("unmasked-payload-differs", "after %s: frame %d (%s): un-masking %d wire bytes with the key does not give the %d submitted bytes (first diff %d)", after, parsedFrames, e.what, len(p.Payload), len(e.payload), firstDiff(p.Payload, e.payload))
				return false
			}
			parsedOff += p.Size
			parsedFrames++
			c.Count("frames_parsed", 1)
			c.Cover("opcode_lengthclass", fmt.Sprintf("op%d/%s", p.Opcode, lenClass(p.DeclaredLen, int64(max))))
		}
		if parsedFrames != len(expect) {
			c.Failf("submitted-frame-missing-on-wire", "after %s: %d frames submitted and completed, %d on the wire", after, len(expect), parsedFrames)
			return false
		}
		return true
	}

	closed := false
	// a frame-level read may be started while an asynchronous write is held by the transport (the read path
	// enters the flush logic again); it stays parked until the peer sends something
	readParked, parkedCalls := false, 0
	var parkedFrame websocket.Frame
	var parkedErr error
	overlaps, syncBlocks := 0, 0
	setPayloadTwice := 0
	leftoverPending, leftoverNew, leftovers := false, false, 0
	var extras []*c16Extra
	secondIssued, secondCalls := false, 0
	var secondErr error
	thirdIssued, thirdCalls := false, 0
	var thirdErr error
	steps := r.Range(1, 40)
	for step := 0; step < steps && !c.Failed() && !closed; step++ {
		k := r.Intn(12)
		if leftoverPending && (k == 5 || (k > 8 && k <= 10) || r.Chance(1, 3)) {
			// the remainder of the interrupted frame is flushed explicitly (always before a step that writes nothing itself)
			for tries := 0; tries < 4; tries++ {
				if ferr := s.Flush(); !errors.Is(ferr, sonicerrors.ErrWouldBlock) {
					break
				}
			}
			leftoverPending = false
			if !verify(fmt.Sprintf("explicit flush before step %d", step)) {
				return
			}
		}
		async := r.Bool()
		hold := async && r.Chance(1, 5)
		if hold {
			t.HoldWrites = true
		}
		var err error
		calls := 0
		cb := func(e error) { calls++; err = e }
		if !async && r.Chance(1, 6) {
			// the transport takes k more bytes and then reports would-block once (a non-blocking socket whose
			// send buffer filled up): the synchronous call fails, a later Flush must finish the frame exactly once
			t.WriteBlockAt = len(t.Written) + r.Intn(40)
			syncBlocks++
		}
		finish := func(what string) bool {
			if !async {
				if errors.Is(err, sonicerrors.ErrWouldBlock) && r.Bool() {
					// the caller does not retry at once: the rest of the frame stays in the stream's write buffer until
					// the next write-type call (blocking or asynchronous) or Flush sends it, ahead of whatever comes next
					c.Logf("  (synchronous call hit would-block after %d wire bytes; the remainder is left for the next call)", len(t.Written))
					t.WriteBlockAt = -1
					leftoverPending, leftoverNew = true, true
					leftovers++
					err = nil
					return true
				}
				for tries := 0; tries < 4 && errors.Is(err, sonicerrors.ErrWouldBlock); tries++ {
					c.Logf("  (synchronous call hit would-block after %d wire bytes; Flush again)", len(t.Written))
					err = s.Flush()
				}
				t.WriteBlockAt = -1
				return true
			}
			if async {
				if hold {
					partial++
					if !readParked && r.Bool() {
						c.Logf("  (while the write is held by the transport: AsyncNextFrame)")
						readParked, parkedCalls = true, 0
						s.AsyncNextFrame(func(e error, f websocket.Frame) {
							parkedCalls++
							parkedErr = e
							parkedFrame = append(websocket.Frame(nil), f...)
						})
						overlaps++
					} else if r.Bool() {
						c.Logf("  (while the write is held by the transport: AsyncFlush)")
						s.AsyncFlush(func(error) {})
						overlaps++
					} else if !closed && s.State() == websocket.StateActive {
						// a second write-type call while the first is held: its frame goes after the held one, once
						overlaps++
						if k2 := r.Intn(3); k2 == 0 {
							n := c16Size(r, max)
							payload := r.Bytes(n)
							w2 := fmt.Sprintf("(while the write is held by the transport) AsyncWrite %d bytes", n)
							c.Logf("  %s", w2)
							expect = append(expect, c16Expect{wsref.OpBinary, true, payload, w2})
							s.AsyncWrite(payload, websocket.TypeBinary, func(e error) { secondCalls++; secondErr = e })
						} else if k2 == 1 {
							n := c16Size(r, max)
							payload := r.Bytes(n)
							w2 := fmt.Sprintf("(while the write is held by the transport) AsyncWriteFrame %d bytes", n)
							c.Logf("  %s", w2)
							expect = append(expect, c16Expect{wsref.OpBinary, true, payload, w2})
							f2 := s.AcquireFrame()
							f2.SetFIN().SetBinary().SetPayload(payload)
							s.AsyncWriteFrame(f2, func(e error) { secondCalls++; secondErr = e })
						} else {
							code := []uint16{1000, 1001, 3000}[r.Intn(3)]
							reason := string(asciiBytes(r, r.Intn(20)))
							w2 := fmt.Sprintf("(while the write is held by the transport) AsyncClose %d %q", code, reason)
							c.Logf("  %s", w2)
							expect = append(expect, c16Expect{wsref.OpClose, true, wsref.ClosePayload(code, reason), w2})
							s.AsyncClose(websocket.CloseCode(code), reason, func(e error) { secondCalls++; secondErr = e })
							closed = true
						}
						secondIssued = true
						extraWrite := func(when string) {
							n := c16Size(r, max)
							payload := r.Bytes(n)
							wx := fmt.Sprintf("(%s) AsyncWrite %d bytes", when, n)
							c.Logf("  %s", wx)
							expect = append(expect, c16Expect{wsref.OpBinary, true, payload, wx})
							x := &c16Extra{what: wx}
							extras = append(extras, x)
							s.AsyncWrite(payload, websocket.TypeBinary, func(e error) { x.calls++; x.err = e })
							overlaps++
						}
						if !closed && s.State() == websocket.StateActive && r.Bool() {
							// two frames are queued behind the held one
							extraWrite("a second frame queued while the first write is held")
						}
						if !closed && r.Bool() {
							// the held write completes, the flush goes on with the queued frame (held again), and a THIRD
							// write-type call arrives during that second transport write
							t.ReleaseOneWrite()
							t.Pump()
							if t.HeldWrites() > 1 {
								c.Failf("more-than-one-write-in-flight", "%s: %d asynchronous writes are on the transport at the same time", what, t.HeldWrites())
								return false
							}
							if s.State() == websocket.StateActive {
								n := c16Size(r, max)
								payload := r.Bytes(n)
								w3 := fmt.Sprintf("(during the second transport write of the chain) AsyncWrite %d bytes", n)
								c.Logf("  %s", w3)
								expect = append(expect, c16Expect{wsref.OpBinary, true, payload, w3})
								s.AsyncWrite(payload, websocket.TypeBinary, func(e error) { thirdCalls++; thirdErr = e })
								thirdIssued = true
								overlaps++
								if r.Bool() {
									extraWrite("one more during the second transport write of the chain")
								}
							}
						}
					}
					t.ReleaseWrites()
				}
				t.Pump()
				for _, x := range extras {
					if x.calls != 1 || x.err != nil {
						c.Failf("overlapping-write-callback", "%s, then %s: its callback was invoked %d times, err=%v", what, x.what, x.calls, x.err)
						return false
					}
				}
				extras = nil
				if thirdIssued {
					thirdIssued = false
					if thirdCalls != 1 || thirdErr != nil {
						c.Failf("overlapping-write-callback", "%s, then a second and a third write-type call across two transport writes: third callback invoked %d times, err=%v", what, thirdCalls, thirdErr)
						return false
					}
					thirdCalls = 0
				}
				if secondIssued {
					secondIssued = false
					if secondCalls != 1 || secondErr != nil {
						c.Failf("overlapping-write-callback", "%s, then a second write-type call while it was held: second callback invoked %d times, err=%v", what, secondCalls, secondErr)
						return false
					}
					secondCalls = 0
				}
				if calls != 1 {
					c.Failf("write-callback-count", "%s: callback invoked %d times", what, calls)
					return false
				}
			}
			return true
		}
		switch {
		case k <= 4: // application message
			n := c16Size(r, max)
			text := r.Bool()
			mt, op := websocket.TypeBinary, byte(wsref.OpBinary)
			payload := r.Bytes(n)
			if text {
				mt, op = websocket.TypeText, wsref.OpText
				payload = asciiBytes(r, n)
			}
			what := fmt.Sprintf("message %d bytes text=%v async=%v", n, text, async)
			c.Logf("%s", what)
			if lastLen > n && lastLen >= 0 {
				poolReuseLongShort++
			}
			lastLen = n
			expect = append(expect, c16Expect{op, true, payload, what})
			if async {
				s.AsyncWrite(payload, mt, cb)
			} else {
				err = s.Write(payload, mt)
			}
			if !finish(what) {
				return
			}
			if err != nil {
				c.Failf("write-error-on-healthy-transport", "%s: %v", what, err)
				return
			}
			shape.WriteString("m")
		case k == 5: // message above the maximum: must be refused, nothing written
			n := max + 1 + r.Intn(10)
			before := len(t.Written)
			what := fmt.Sprintf("oversize message %d bytes (max %d) async=%v", n, max, async)
			c.Logf("%s", what)
			if hold { // nothing is written, so there is no write to hold and to overlap with
				hold, t.HoldWrites = false, false
			}
			if async {
				s.AsyncWrite(make([]byte, n), websocket.TypeBinary, cb)
			} else {
				err = s.Write(make([]byte, n), websocket.TypeBinary)
			}
			if !finish(what) {
				return
			}
			if err == nil {
				c.Failf("oversize-message-not-refused", "%s: accepted", what)
				return
			}
			if len(t.Written) != before || s.Pending() != 0 {
				c.Failf("oversize-message-partly-written", "%s: refused with %v but %d bytes reached the transport and %d frames are queued", what, err, len(t.Written)-before, s.Pending())
				return
			}
			refused++
			shape.WriteString("o")
		case k <= 8: // caller-built frame, with or without SetPayload
			f := s.AcquireFrame()
			f.SetFIN()
			ops := []byte{wsref.OpText, wsref.OpBinary, wsref.OpPing, wsref.OpPong}
			op := ops[r.Intn(len(ops))]
			f.SetOpcode(websocket.Opcode(op))
			var payload []byte
			withPayload := r.Chance(2, 3)
			if withPayload {
				n := c16Size(r, max)
				if op >= 8 {
					n = r.Intn(126)
				}
				payload = r.Bytes(n)
				if r.Chance(1, 3) {
					// the caller changes its mind: a payload of another length class was set before the final one
					other := []int{0, 5, 100, 200, 300, 70000}[r.Intn(6)]
					if op >= 8 {
						other = r.Intn(126)
					}
					f.SetPayload(r.Bytes(other))
					setPayloadTwice++
				}
				f.SetPayload(payload)
				if lastLen > n && lastLen >= 0 {
					poolReuseLongShort++
				}
				lastLen = n
			} else {
				payloadless++
			}
			what := fmt.Sprintf("caller-built frame op=%d SetPayload=%v (%d bytes) async=%v", op, withPayload, len(payload), async)
			c.Logf("%s", what)
			expect = append(expect, c16Expect{op, true, payload, what})
			if async {
				s.AsyncWriteFrame(f, cb)
			} else {
				err = s.WriteFrame(f)
			}
			if !finish(what) {
				return
			}
			if err != nil {
				c.Failf("write-error-on-healthy-transport", "%s: %v", what, err)
				return
			}
			shape.WriteString("f")
		case k <= 10: // peer ping -> automatic pong, flushed by the next read/flush
			n := r.Intn(126)
			payload := r.Bytes(n)
			t.Feed(wsref.Frame{Fin: true, Opcode: wsref.OpPing, Payload: payload}.Encode())
			what := fmt.Sprintf("auto pong for a %d-byte ping", n)
			c.Logf("peer ping %d bytes; NextFrame (or the parked read); Flush", n)
			if readParked {
				t.Pump()
				if parkedCalls != 1 || parkedErr != nil || len(parkedFrame) < 2 || parkedFrame.Opcode() != websocket.OpcodePing {
					c.Failf("parked-read-did-not-deliver-ping", "the read started during a held write was invoked %d times, err=%v", parkedCalls, parkedErr)
					return
				}
				readParked = false
			} else {
				f, rerr := s.NextFrame()
				if rerr != nil || f.Opcode() != websocket.OpcodePing {
					c.Failf("ping-not-read", "reading the peer's ping: err=%v", rerr)
					return
				}
			}
			expect = append(expect, c16Expect{wsref.OpPong, true, payload, what})
			if async {
				s.AsyncFlush(cb)
			} else {
				err = s.Flush()
			}
			if !finish(what) {
				return
			}
			if err != nil {
				c.Failf("write-error-on-healthy-transport", "%s: %v", what, err)
				return
			}
			shape.WriteString("p")
		default: // local close: last frame on the wire
			code := []uint16{1000, 1001, 3000}[r.Intn(3)]
			reason := string(asciiBytes(r, r.Intn(20)))
			what := fmt.Sprintf("close code=%d reason=%q async=%v", code, reason, async)
			c.Logf("%s", what)
			expect = append(expect, c16Expect{wsref.OpClose, true, wsref.ClosePayload(code, reason), what})
			if async {
				s.AsyncClose(websocket.CloseCode(code), reason, cb)
			} else {
				err = s.Close(websocket.CloseCode(code), reason)
			}
			if !finish(what) {
				return
			}
			if err != nil {
				c.Failf("write-error-on-healthy-transport", "%s: %v", what, err)
				return
			}
			closed = true
			shape.WriteString("c")
		}
		if leftoverPending && !leftoverNew {
			leftoverPending = false // the write-type call of this step sent the remainder first
		}
		leftoverNew = false
		if leftoverPending {
			continue // left in this very step: judged after the next call
		}
		if !verify(fmt.Sprintf("step %d", step)) {
			return
		}
	}
	if leftoverPending && !c.Failed() {
		for tries := 0; tries < 4; tries++ {
			if ferr := s.Flush(); !errors.Is(ferr, sonicerrors.ErrWouldBlock) {
				break
			}
		}
		if !verify("final flush of a remainder") {
			return
		}
	}
	c.Count("pool_reuses_longer_then_shorter", poolReuseLongShort)
	c.Count("caller_built_frames_with_setpayload_called_twice", setPayloadTwice)
	c.Count("remainders_left_in_the_write_buffer_for_the_next_call", leftovers)
	c.Count("payloadless_caller_frames", payloadless)
	c.Count("writes_with_transport_temporarily_unwritable", partial)
	c.Count("refused_oversize_writes", refused)
	c.Count("synchronous_writes_with_wouldblock_mid_frame", syncBlocks)
	c.Count("reads_or_flushes_started_while_a_write_was_in_flight", overlaps)
	c.Count("sequences", 1)
	if t.WriteMax > 0 {
		c.Count("partial_write_sequences", 1)
	}
	_ = xport.ErrInjected
	if poolReuseLongShort > 0 || payloadless > 0 || t.WriteMax > 0 {
		c.NonTrivial(fmt.Sprintf("%d/%d/%v/%x", max, t.WriteMax, t.DeferWrites, vf.HashString(shape.String())))
	}
}

func init() {
	register(&vf.Check{
		ID:        "C16",
		Technique: "runtime monitor: strict independent RFC 6455 parser over all bytes accepted by a scripted transport under a real Stream, compared with the list of submissions after every write",
		Rule: "while a write is held up to two more frames are queued behind it and up to two during the chain's second transport write; one case in 150 raises the maximum to 4 MiB and writes messages of 1-2 MiB; one stream in four is a re-attached used stream, half of those after a blocking write stopped part-way; " +
			"cases = sequences of 1-40 writes: Write/AsyncWrite of text/binary (sizes {0,1,125,126,127,200,within 16 bytes of 4096..32768,65535,65536,max,random}), oversize messages, caller-built frames from AcquireFrame with and without SetPayload (text, binary, ping, pong), automatic Pongs for peer Pings, a final Close; transports accepting all/1/3/7/100 bytes per write, inline or deferred, temporarily unwritable (a second write-type call - AsyncWrite, AsyncWriteFrame, AsyncClose - a read or a flush is issued while the first write is held, and a third one during the chain's second transport write); synchronous would-block in the middle of a frame; max in {125,1000,5000,70000,default}; " +
			"non-trivial = a pooled frame reused for a shorter payload after a longer one, a payload-less caller-built frame, or a partial-write transport; distinct = (max, write behaviour, submission shape)",
		Assumptions: []string{
			"one application write at a time (overlapping writes belong to C17); a read or flush may be started while a write is held by the transport",
			"masking keys are not required to be distinct, only present and correctly applied",
		},
		NumCases:    func(tier, build string) int { return vf.Tiered(tier, 10000, 1000000) },
		Floor:       func(tier string) int { return vf.Tiered(tier, 300, 5000) },
		CaseTimeout: 30 * time.Second,
		Run:         runC16,
	})
}
