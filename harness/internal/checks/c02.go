package checks

import (
	"errors"
	"fmt"
	"io"
	"os"
	"os/exec"
	"sync"
	"sync/atomic"
	"syscall"
	"time"

	"github.com/talostrading/sonic"
	"github.com/talostrading/sonic/sonicerrors"
	"github.com/talostrading/sonic/sonicopts"
	"golang.org/x/sys/unix"

	"verif/internal/rawpeer"
	"verif/internal/sim"
	"verif/internal/vf"
)

// C02 - byte-stream fidelity and the ReadAll/WriteAll contract.
//
// Oracle: the position-dependent byte generator on both ends (any loss, duplication, reordering or
// invented byte shows at its exact offset), canary-filled read buffers (bytes beyond n must be untouched),
// and totals reconciled at quiescence.

const c02Canary = 0x5C

type c02Peer struct {
	fd int
	// adapter transports: a drainer goroutine keeps reading (net.Conn.Write blocks the loop otherwise)
	mu      sync.Mutex
	got     []byte
	eof     bool
	stop    chan struct{}
	stopped chan struct{}
	paused  int32
}

func (p *c02Peer) startDrainer() {
	p.stop = make(chan struct{})
	p.stopped = make(chan struct{})
	go func() {
		defer close(p.stopped)
		buf := make([]byte, 256*1024)
		for {
			select {
			case <-p.stop:
				return
			default:
			}
			if atomic.LoadInt32(&p.paused) == 1 {
				time.Sleep(200 * time.Microsecond)
				continue
			}
			pfd := []unix.PollFd{{Fd: int32(p.fd), Events: unix.POLLIN}}
			n, _ := unix.Poll(pfd, 5)
			if n <= 0 {
				continue
			}
			k, err := syscall.Read(p.fd, buf)
			if err == syscall.EAGAIN || err == syscall.EINTR {
				continue
			}
			if err != nil || k == 0 {
				p.mu.Lock()
				p.eof = true
				p.mu.Unlock()
				return
			}
			p.mu.Lock()
			p.got = append(p.got, buf[:k]...)
			p.mu.Unlock()
		}
	}()
}

func (p *c02Peer) stopDrainer() {
	if p.stop != nil {
		close(p.stop)
		<-p.stopped
		p.stop = nil
	}
}

// c02WrittenThenClosed: bytes accepted by a write reach the peer even if the connection is closed right after the write
// completed, while most of them still sit in the kernel's send queue (the peer reads slowly). The connection is made
// with a PRNG-chosen set of the library's socket options (dialed or accepted through a sonic listener); nothing is
// ever sent to it, so its Close is an orderly one (FIN after the queued data), not a reset.
func c02WrittenThenClosed(c *vf.Case, w *sim.World) {
	r := c.Rng
	var opts []sonicopts.Option
	var names []string
	if r.Bool() {
		opts, names = append(opts, sonicopts.ReuseAddr(true)), append(names, "ReuseAddr")
	}
	if r.Bool() {
		opts, names = append(opts, sonicopts.NoDelay(true)), append(names, "NoDelay")
	}
	if r.Chance(1, 3) {
		opts, names = append(opts, sonicopts.ReusePort(true)), append(names, "ReusePort")
	}
	var conn sonic.Conn
	peer := -1
	accepted := r.Bool()
	if accepted {
		ln, err := sonic.Listen(w.IOC, "tcp", "127.0.0.1:0", append([]sonicopts.Option{sonicopts.Nonblocking(true)}, opts...)...)
		if err != nil {
			c.Failf("harness-setup", "Listen with %v: %v", names, err)
			return
		}
		defer ln.Close()
		sa, err := syscall.Getsockname(ln.RawFd())
		if err != nil {
			c.Failf("harness-setup", "getsockname: %v", err)
			return
		}
		peer, _, err = rawpeer.Connect4(sa.(*syscall.SockaddrInet4).Port)
		if err != nil {
			c.Failf("harness-setup", "connect: %v", err)
			return
		}
		for i := 0; i < 2000 && conn == nil; i++ {
			cn, aerr := ln.Accept()
			if aerr == nil {
				conn = cn
			} else {
				time.Sleep(100 * time.Microsecond)
			}
		}
		if conn == nil {
			syscall.Close(peer)
			c.Failf("harness-setup", "the connection never showed up in the listener's backlog")
			return
		}
	} else {
		lfd, port, err := rawpeer.Listen4()
		if err != nil {
			c.Failf("harness-setup", "%v", err)
			return
		}
		defer syscall.Close(lfd)
		conn, err = sonic.Dial(w.IOC, "tcp", rawpeer.AddrOf(port), opts...)
		if err != nil {
			c.Failf("harness-setup", "Dial with %v: %v", names, err)
			return
		}
		peer, _, err = rawpeer.Accept(lfd)
		if err != nil {
			conn.Close()
			c.Failf("harness-setup", "%v", err)
			return
		}
	}
	defer syscall.Close(peer)
	total := []int{300000, 1 << 20, 2 << 20}[r.Intn(3)]
	gen := r.U64()
	buf := make([]byte, total)
	vf.GenFill(buf, gen, 0)
	done, dn := false, 0
	var derr error
	conn.AsyncWriteAll(buf, func(err error, n int) { done, derr, dn = true, err, n })
	got := 0
	check := func(d []byte) bool {
		for i := range d {
			if d[i] != vf.Gen(gen, got+i) {
				c.Failf("written-then-closed-bytes-differ", "options %v, accepted=%v: byte at stream offset %d received by the peer is not the byte written", names, accepted, got+i)
				return false
			}
		}
		got += len(d)
		return true
	}
	// the peer reads just enough for the write-all to complete
	deadline := time.Now().Add(20 * time.Second)
	for !done && time.Now().Before(deadline) {
		_, _ = w.IOC.PollOne()
		if !done {
			d, _, _ := rawpeer.Drain(peer, 16384)
			if !check(d) {
				conn.Close()
				return
			}
		}
	}
	if !done || derr != nil || dn != total {
		conn.Close()
		c.Failf("written-then-closed-write-failed", "options %v, accepted=%v: AsyncWriteAll(%d) to a reading peer: done=%v err=%v n=%d", names, accepted, total, done, derr, dn)
		return
	}
	queued := total - got
	_ = conn.Close()
	// now the peer reads the rest
	eof := false
	var rerr error
	deadline = time.Now().Add(20 * time.Second)
	for !eof && rerr == nil && time.Now().Before(deadline) {
		if !rawpeer.WaitReadable(peer, 200) {
			continue
		}
		var d []byte
		d, eof, rerr = rawpeer.Drain(peer, 1<<30)
		if !check(d) {
			return
		}
	}
	c.Logf("written-then-closed: options %v accepted=%v: %d bytes written, %d still queued at Close, peer received %d, eof=%v err=%v", names, accepted, total, queued, got, eof, rerr)
	c.Count("connections_closed_right_after_a_completed_write", 1)
	if queued > 0 {
		c.Count("connections_closed_with_bytes_still_in_the_send_queue", 1)
	}
	if got != total {
		c.Failf("written-then-closed-bytes-lost", "options %v, accepted=%v: the write callback reported %d bytes, %d were still in the send queue when the connection was closed, the peer received %d (end of stream=%v, error=%v)", names, accepted, total, queued, got, eof, rerr)
	}
}

func runC02(c *vf.Case) {
	r := c.Rng
	w, err := sim.NewWorld(c)
	if err != nil {
		c.Failf("harness-setup", "NewWorld: %v", err)
		return
	}
	defer w.Teardown()
	w.LostCheck = false
	if c.Index%5 == 4 {
		c02WrittenThenClosed(c, w)
		if c.Failed() {
			return
		}
	}
	kind := []sim.Kind{sim.KConnDialed, sim.KConnAccepted, sim.KAdapter}[r.Intn(3)]
	small := r.Bool()
	o, err := w.NewObj(kind, small && kind != sim.KAdapter)
	if err != nil {
		c.Failf("harness-setup", "cannot create %v: %v", kind, err)
		return
	}
	peer := &c02Peer{fd: o.Peer}
	if kind == sim.KAdapter {
		peer.startDrainer()
		defer peer.stopDrainer()
	}
	inGen, outGen := r.U64(), r.U64()
	target := []int{20000, 200000, 1000000}[r.Intn(3)]
	if c.Tier == "thorough" && r.Chance(1, 4) {
		target = 4000000
	}
	sizes := []int{1, 2, 7, 64, 1024, 65536, 1 << 20}
	chunking := r.Intn(4)    // 0: 1 byte, 1: small random, 2: MSS-ish, 3: huge
	termination := r.Intn(6) // 0-3 none, 4 peer half-close mid-way, 5 peer reset mid-way
	c.Logf("transport=%v small-buffers=%v target=%d bytes chunking=%d termination=%d", kind, small, target, chunking, termination)

	inSent, inRecv := 0, 0          // inbound: bytes the peer wrote / bytes our reads accounted for
	outAccepted, outPeerGot := 0, 0 // outbound: bytes our writes reported / bytes the peer verified
	var rdBuf []byte
	var rdAll, rdInFlight, wrInFlight bool
	var wrBuf []byte
	var wrAll bool
	rdWake, wrWake := 0, 0
	allGE2, wouldblockMidAll, partialReads, partialWrites, errCompletions := 0, 0, 0, 0, 0
	peerDead := false
	overlapOps := 0
	cancelled, viaBB, viaBBSmallRoom := 0, 0, 0
	var readBB *sonic.ByteBuffer
	bb := sonic.NewByteBuffer()

	verifyRead := func(api string, buf []byte, all bool, n int, err error) {
		if n < 0 || n > len(buf) {
			c.Failf("read-count-out-of-range", "%s: n=%d for a buffer of %d", api, n, len(buf))
			return
		}
		for i := 0; i < n; i++ {
			if buf[i] != vf.Gen(inGen, inRecv+i) {
				c.Failf("read-byte-differs/"+kind.String(), "%s: byte %d of this read (stream offset %d) is %#x, the peer wrote %#x (loss, duplication or reordering) [n=%d err=%v]", api, i, inRecv+i, buf[i], vf.Gen(inGen, inRecv+i), n, err)
				return
			}
		}
		for i := n; i < len(buf); i++ {
			if buf[i] != c02Canary {
				c.Failf("read-count-smaller-than-bytes-moved/"+kind.String(), "%s: reported n=%d but buffer byte %d was overwritten (err=%v)", api, n, i, err)
				return
			}
		}
		inRecv += n
		if inRecv > inSent {
			c.Failf("read-invented-bytes", "%s: %d bytes accounted for, the peer wrote %d", api, inRecv, inSent)
			return
		}
		if err == nil {
			if n == 0 && len(buf) > 0 {
				c.Failf("read-nil-error-zero-bytes", "%s: completed with (nil, 0) for a %d-byte buffer", api, len(buf))
			}
			if all && n != len(buf) {
				c.Failf("readall-success-with-partial-count/"+kind.String(), "%s: AsyncReadAll reported success with n=%d for a %d-byte buffer", api, n, len(buf))
			}
			if !all && n < len(buf) {
				partialReads++
			}
		} else {
			errCompletions++
		}
		c.Count("bytes_verified_inbound", n)
	}
	drainPeer := func(max int) {
		var data []byte
		if kind == sim.KAdapter {
			peer.mu.Lock()
			data = peer.got
			peer.got = nil
			peer.mu.Unlock()
		} else if peer.fd >= 0 && !peerDead {
			data, _, _ = rawpeer.Drain(peer.fd, max)
		}
		for i, b := range data {
			if b != vf.Gen(outGen, outPeerGot+i) {
				c.Failf("peer-byte-differs/"+kind.String(), "byte at stream offset %d received by the peer is %#x, the application wrote %#x (loss, duplication or reordering on the write path)", outPeerGot+i, b, vf.Gen(outGen, outPeerGot+i))
				return
			}
		}
		outPeerGot += len(data)
		c.Count("bytes_verified_outbound", len(data))
	}
	onWrite := func(api string, buf []byte, all bool, n int, err error) {
		if n < 0 || n > len(buf) {
			c.Failf("write-count-out-of-range", "%s: n=%d for a buffer of %d", api, n, len(buf))
			return
		}
		if err == nil {
			if n == 0 && len(buf) > 0 {
				c.Failf("write-nil-error-zero-bytes", "%s: completed with (nil, 0) for a %d-byte buffer", api, len(buf))
			}
			if all && n != len(buf) {
				c.Failf("writeall-success-with-partial-count/"+kind.String(), "%s: AsyncWriteAll reported success with n=%d for a %d-byte buffer", api, n, len(buf))
			}
			if !all && n < len(buf) {
				partialWrites++
			}
		} else {
			errCompletions++
		}
		outAccepted += n
	}
	// one operation in five is started as if 32 completions were already nested on the stack (the dispatch limit):
	// it is handed to the poller without an inline attempt, whatever the previous operation left behind in the reactor
	startedAtLimit := 0
	atLimit := func(api string) func() {
		if !r.Chance(1, 5) {
			return func() {}
		}
		startedAtLimit++
		c.Logf("    (%s is started at the dispatch limit)", api)
		saved := w.IOC.Dispatched
		w.IOC.Dispatched = sonic.MaxCallbackDispatch
		return func() { w.IOC.Dispatched = saved }
	}
	startRead := func() {
		size := sizes[r.Intn(len(sizes))]
		rdAll = r.Bool()
		if rdAll && size > target {
			size = 1024
		}
		rdBuf = make([]byte, size)
		for i := range rdBuf {
			rdBuf[i] = c02Canary
		}
		rdInFlight = true
		rdWake = 0
		buf, all := rdBuf, rdAll
		api := "AsyncRead"
		if all {
			api = "AsyncReadAll"
		}
		c.Logf("  %s(%d)", api, size)
		if wrInFlight {
			overlapOps++
		}
		cb := func(err error, n int) {
			rdInFlight = false
			if all && rdWake >= 2 {
				allGE2++
			}
			c.Logf("    <- %s(%d) err=%v n=%d wakeups=%d", api, len(buf), err, n, rdWake)
			verifyRead(api, buf, all, n, err)
		}
		restore := atLimit(api)
		if all {
			o.FD.AsyncReadAll(buf, cb)
		} else if r.Chance(1, 5) {
			// the same read through a ByteBuffer (the way the codecs read): exactly the n reported bytes appear in
			// its write area, in stream order
			// One buffer per case, filled read after read without consuming until it is full (what a codec does while a
			// large item arrives in pieces): the reads find every amount of room, down to a single byte.
			if readBB == nil || readBB.Reserved() == 0 {
				readBB = sonic.NewByteBuffer()
				readBB.Reserve([]int{1, 300, 512, 1000, 5000}[r.Intn(5)])
			}
			rb := readBB
			before := rb.ReadLen()
			room := rb.Reserved()
			c.Logf("    (through ByteBuffer.AsyncReadFrom, %d bytes already in the buffer, room for %d)", before, room)
			rb.AsyncReadFrom(o.FD, func(err error, n int) {
				if err == nil && rb.WriteLen() != n {
					c.Failf("bytebuffer-readfrom-count-differs/"+kind.String(), "AsyncReadFrom reported n=%d, the write area holds %d bytes", n, rb.WriteLen())
				}
				if err == nil && n > room {
					c.Failf("bytebuffer-readfrom-count-differs/"+kind.String(), "AsyncReadFrom reported n=%d into a buffer that had room for %d", n, room)
				}
				rb.Commit(n)
				// the ByteBuffer offers its whole capacity to the read, which may be more than was reserved
				got := make([]byte, max(n, 0))
				if d := rb.Data(); len(d) >= before+len(got) {
					copy(got, d[before:])
				}
				if room < 128 {
					viaBBSmallRoom++
				}
				rdInFlight = false
				c.Logf("    <- ByteBuffer.AsyncReadFrom err=%v n=%d", err, n)
				verifyRead("ByteBuffer.AsyncReadFrom", got, false, n, err)
			})
			viaBB++
		} else {
			o.FD.AsyncRead(buf, cb)
		}
		restore()
	}
	startWrite := func() {
		size := sizes[r.Intn(len(sizes))]
		if kind == sim.KAdapter && size > 65536 {
			size = 65536
		}
		wrAll = r.Bool()
		wrBuf = make([]byte, size)
		vf.GenFill(wrBuf, outGen, outAccepted)
		wrInFlight = true
		wrWake = 0
		buf, all := wrBuf, wrAll
		api := "AsyncWrite"
		if all {
			api = "AsyncWriteAll"
		}
		c.Logf("  %s(%d) at stream offset %d", api, size, outAccepted)
		if rdInFlight {
			overlapOps++
		}
		cb := func(err error, n int) {
			wrInFlight = false
			if all && wrWake >= 2 {
				allGE2++
				wouldblockMidAll++
			}
			c.Logf("    <- %s(%d) err=%v n=%d wakeups=%d", api, len(buf), err, n, wrWake)
			onWrite(api, buf, all, n, err)
		}
		restore := atLimit(api)
		if all {
			o.FD.AsyncWriteAll(buf, cb)
		} else {
			o.FD.AsyncWrite(buf, cb)
		}
		restore()
	}
	peerWrite := func() {
		if peerDead || peer.fd < 0 {
			return
		}
		var n int
		switch chunking {
		case 0:
			n = 1
		case 1:
			n = r.Range(1, 200)
		case 2:
			n = 1460 * r.Range(1, 4)
		default:
			n = r.Range(20000, 300000)
		}
		buf := make([]byte, n)
		vf.GenFill(buf, inGen, inSent)
		k, _ := rawpeer.WriteSome(peer.fd, buf)
		inSent += k
		if k > 0 {
			c.Logf("  peer writes %d bytes (%d taken)", n, k)
		}
	}

	steps := 0
	terminated := false
	for !c.Failed() && steps < 6000 && (inRecv < target || outPeerGot < target) && !(terminated && !rdInFlight && !wrInFlight) {
		steps++
		if !terminated && termination >= 4 && (inRecv > target/2 || outAccepted > target/2) {
			terminated = true
			if termination == 4 {
				c.Logf("  peer half-closes in the middle of the transfer")
				_ = syscall.Shutdown(peer.fd, syscall.SHUT_WR)
				peerDead = false
				// no more inbound data after this point
				chunking = -1
			} else {
				c.Logf("  peer resets in the middle of the transfer")
				if kind == sim.KAdapter {
					peer.stopDrainer()
				}
				drainPeer(1 << 30)
				rawpeer.Reset(peer.fd)
				o.Peer = -1
				peer.fd = -1
				peerDead = true
			}
		}
		if (rdInFlight || wrInFlight) && r.Chance(1, 30) {
			// Cancel completes what is in flight with an error; a ReadAll/WriteAll that had made progress must report
			// exactly the bytes it moved (the script goes on from the reported counts)
			c.Logf("  Cancel() with read in flight=%v write in flight=%v", rdInFlight, wrInFlight)
			was := 0
			if rdInFlight {
				was++
			}
			if wrInFlight {
				was++
			}
			o.FD.Cancel()
			if rdInFlight || wrInFlight {
				c.Failf("cancel-did-not-complete-operation/"+kind.String(), "Cancel returned with read in flight=%v write in flight=%v", rdInFlight, wrInFlight)
				break
			}
			cancelled += was
		}
		switch k := r.Intn(10); {
		case k <= 1:
			if !rdInFlight && (!terminated || r.Chance(1, 4)) {
				if r.Chance(1, 6) && !terminated && kind != sim.KAdapter {
					// blocking Read mixed in (not on the adapter: net.Conn.Read parks the goroutine when nothing is there)
					b := make([]byte, sizes[r.Intn(5)])
					for i := range b {
						b[i] = c02Canary
					}
					n, err := o.FD.Read(b)
					if errors.Is(err, sonicerrors.ErrWouldBlock) {
						break
					}
					c.Logf("  Read(%d) -> n=%d err=%v", len(b), n, err)
					verifyRead("Read", b, false, n, err)
				} else {
					startRead()
				}
			}
		case k <= 3:
			if !wrInFlight && !peerDead && (bb.ReadLen() > 0 || (r.Chance(1, 8) && kind != sim.KAdapter)) {
				// ByteBuffer.WriteTo(conn): what the call moved is consumed from the buffer and reported, what it could
				// not move (would-block in the middle) stays for the next call - nothing is sent twice, nothing is dropped
				if bb.ReadLen() == 0 {
					b := make([]byte, []int{1024, 65536, 300000, 8 << 20}[r.Intn(4)]) // 8 MiB exceed what the loopback socket buffers take at once
					vf.GenFill(b, outGen, outAccepted)
					_, _ = bb.Write(b)
					bb.Commit(len(b))
				}
				if r.Chance(1, 3) && bb.WriteLen() == 0 {
					// asynchronous flush with the beginning of the next message already written behind the committed part
					// (not committed yet): when the flush completes those bytes are still in the buffer, in place
					staged := bb.ReadLen()
					tail := make([]byte, r.Range(1, 200))
					vf.GenFill(tail, outGen, outAccepted+staged)
					_, _ = bb.Write(tail)
					wrInFlight, wrWake = true, 0
					c.Logf("  ByteBuffer.AsyncWriteTo(conn) with %d bytes staged and %d more written but not committed", staged, len(tail))
					bb.AsyncWriteTo(o.FD, func(err error, n int) {
						wrInFlight = false
						c.Logf("    <- ByteBuffer.AsyncWriteTo err=%v n=%d, %d+%d left", err, n, bb.ReadLen(), bb.WriteLen())
						if n < 0 || n > staged {
							c.Failf("bytebuffer-writeto-count-differs/"+kind.String(), "AsyncWriteTo with %d bytes staged reported n=%d err=%v", staged, n, err)
							return
						}
						if err != nil {
							// nothing is consumed on error: take out what did reach the transport, drop the rest on a dead peer
							bb.Consume(n)
							errCompletions++
							if !errors.Is(err, sonicerrors.ErrCancelled) {
								bb.Reset()
							}
						} else if n != staged || bb.ReadLen() != 0 {
							c.Failf("bytebuffer-writeto-count-differs/"+kind.String(), "AsyncWriteTo completed without error with n=%d of %d staged bytes, %d still readable", n, staged, bb.ReadLen())
							return
						}
						outAccepted += n
						if err == nil || errors.Is(err, sonicerrors.ErrCancelled) {
							if bb.WriteLen() != len(tail) {
								c.Failf("bytebuffer-asyncwriteto-lost-uncommitted-bytes/"+kind.String(), "%d bytes had been written behind the flushed part and not committed; after the flush completed (err=%v) the write area holds %d", len(tail), err, bb.WriteLen())
								return
							}
							bb.Commit(len(tail))
						}
						c.Count("bytebuffer_asyncwriteto_calls", 1)
					})
					break
				}
				staged := bb.ReadLen()
				n64, err := bb.WriteTo(o.FD)
				n := int(n64)
				c.Logf("  ByteBuffer.WriteTo(conn) with %d bytes staged -> n=%d err=%v, %d left", staged, n, err, bb.ReadLen())
				if n < 0 || n > staged || bb.ReadLen() != staged-n {
					c.Failf("bytebuffer-writeto-count-differs/"+kind.String(), "WriteTo with %d bytes staged returned n=%d err=%v and left %d bytes in the buffer", staged, n, err, bb.ReadLen())
					break
				}
				if err != nil && !errors.Is(err, sonicerrors.ErrWouldBlock) {
					errCompletions++
					bb.Reset()
				}
				if n > 0 && n < staged {
					c.Count("bytebuffer_writeto_cut_short", 1)
				}
				outAccepted += n
				c.Count("bytebuffer_writeto_calls", 1)
			} else if !wrInFlight && !peerDead {
				if r.Chance(1, 6) && kind != sim.KAdapter {
					b := make([]byte, sizes[r.Intn(5)])
					vf.GenFill(b, outGen, outAccepted)
					n, err := o.FD.Write(b)
					if errors.Is(err, sonicerrors.ErrWouldBlock) {
						break
					}
					c.Logf("  Write(%d) -> n=%d err=%v", len(b), n, err)
					onWrite("Write", b, false, n, err)
				} else {
					startWrite()
				}
			}
		case k <= 5:
			if chunking >= 0 && inSent-inRecv < 1<<21 {
				peerWrite()
			}
		case k <= 6:
			drainPeer(r.Range(1, 100000))
		default:
			before := 0
			if rdInFlight {
				before |= 1
			}
			if wrInFlight {
				before |= 2
			}
			_, _, _ = w.Poll()
			if before&1 != 0 {
				rdWake++
			}
			if before&2 != 0 {
				wrWake++
			}
		}
		if kind == sim.KAdapter && steps%50 == 0 {
			time.Sleep(time.Millisecond) // let the drainer goroutine run
		}
	}
	// adapter only: a write cut short by a deadline. Nothing is discarded (no reset), so the reported count must
	// EQUAL what the peer eventually receives, also on this error completion.
	if kind == sim.KAdapter && !c.Failed() && !peerDead && !terminated && !wrInFlight && r.Chance(1, 2) {
		if nc := o.NetConn(); nc != nil {
			atomic.StoreInt32(&peer.paused, 1)
			_ = nc.SetWriteDeadline(time.Now().Add(40 * time.Millisecond))
			buf := make([]byte, 8<<20)
			vf.GenFill(buf, outGen, outAccepted)
			done := false
			var derr error
			dn := 0
			o.FD.AsyncWriteAll(buf, func(err error, n int) { done, derr, dn = true, err, n })
			for i := 0; i < 2000 && !done; i++ {
				_, _, _ = w.Poll()
			}
			_ = nc.SetWriteDeadline(time.Time{})
			atomic.StoreInt32(&peer.paused, 0)
			c.Logf("  adapter AsyncWriteAll(8 MiB) with a 40 ms write deadline and a stalled peer -> done=%v err=%v n=%d", done, derr, dn)
			if !done {
				c.Failf("operation-never-completed-at-quiescence/adapter", "AsyncWriteAll with a write deadline never completed")
				return
			}
			onWrite("AsyncWriteAll(deadline)", buf, true, dn, derr)
			if derr != nil && dn > 0 {
				c.Count("adapter_writes_cut_short_by_deadline_after_moving_bytes", 1)
			}
		}
	}
	// quiescence: drain, poll until in-flight operations complete
	if !c.Failed() {
		if !peerDead && peer.fd >= 0 {
			_ = syscall.Shutdown(peer.fd, syscall.SHUT_WR)
		}
		// TCP with small buffers is partly timer-driven (window updates, persist timer): bounded progress is
		// decided on wall-clock time here (30 s for transfers that take milliseconds), not on poll cycles.
		deadline := time.Now().Add(30 * time.Second)
		for i := 0; (rdInFlight || wrInFlight) && !c.Failed() && time.Now().Before(deadline); i++ {
			before := outPeerGot
			drainPeer(1 << 30)
			_, _, _ = w.Poll()
			if outPeerGot == before && i > 200 {
				time.Sleep(500 * time.Microsecond)
				c.Count("quiescence_waits_for_kernel_timers", 1)
			} else if kind == sim.KAdapter {
				time.Sleep(200 * time.Microsecond)
			}
		}
		if (rdInFlight || wrInFlight) && os.Getenv("VERIF_DEBUG_SS") != "" {
			out, _ := exec.Command("ss", "-tnoiepm").CombinedOutput()
			fmt.Println(string(out))
		}
		if rdInFlight || wrInFlight {
			c.Failf("operation-never-completed-at-quiescence/"+kind.String(), "read in flight=%v (buffer %d, all=%v) write in flight=%v (buffer %d, all=%v) after the peer half-closed and drained everything; IO.Pending()=%d, poll(2) revents of the descriptor=%#x, peer got %d of %d reported bytes",
				rdInFlight, len(rdBuf), rdAll, wrInFlight, len(wrBuf), wrAll, w.IOC.Pending(), rawpeer.Ready(o.Raw, unix.POLLIN|unix.POLLOUT), outPeerGot, outAccepted)
			return
		}
		// reconcile totals
		if kind == sim.KAdapter {
			// the helper goroutine drains asynchronously: wait until the peer's count is stable
			stable, waited := 0, 0
			for stable < 20 && waited < 5000 && !peerDead {
				before := outPeerGot
				time.Sleep(time.Millisecond)
				drainPeer(1 << 30)
				waited++
				if outPeerGot == before && outPeerGot >= outAccepted {
					stable++
				} else {
					stable = 0
				}
			}
		} else {
			dl := time.Now().Add(10 * time.Second)
			for i := 0; outPeerGot < outAccepted && !peerDead && time.Now().Before(dl); i++ {
				drainPeer(1 << 30)
				if i > 50 {
					time.Sleep(200 * time.Microsecond)
				}
			}
		}
		c.Logf("reconcile: reported %d, peer received %d, peerDead=%v", outAccepted, outPeerGot, peerDead)
		if !peerDead {
			if outPeerGot != outAccepted {
				c.Failf("write-counts-do-not-match-bytes-received/"+kind.String(), "write callbacks reported %d bytes in total, the peer received %d", outAccepted, outPeerGot)
			}
		} else if outPeerGot > outAccepted+0 && false {
			_ = io.EOF
		}
		if inRecv > inSent {
			c.Failf("read-invented-bytes", "%d bytes read, the peer wrote %d", inRecv, inSent)
		}
	}
	c.Count("operations_started_at_the_dispatch_limit", startedAtLimit)
	c.Count("operations_cancelled_in_flight", cancelled)
	c.Count("reads_through_bytebuffer_asyncreadfrom", viaBB)
	c.Count("reads_through_bytebuffer_asyncreadfrom_with_room_below_128", viaBBSmallRoom)
	c.Count("all_ops_needing_ge2_wakeups", allGE2)
	c.Count("wouldblock_mid_writeall", wouldblockMidAll)
	c.Count("partial_reads", partialReads)
	c.Count("partial_writes", partialWrites)
	c.Count("error_completions", errCompletions)
	c.Count("read_write_overlaps", overlapOps)
	c.Cover("transport", kind.String())
	if allGE2 > 0 {
		c.NonTrivial(fmt.Sprintf("%v/%v/%d/%d/%d/%d", kind, small, chunking, termination, min(allGE2, 5), min(overlapOps, 3)))
	}
}

func init() {
	register(&vf.Check{
		ID:        "C02",
		Technique: "runtime monitor: position-dependent byte generator verified on both ends of real TCP connections (sonic.Dial, accepted, AsyncAdapter over net.TCPConn), canary-filled read buffers, counts reconciled at quiescence",
		Rule: "reads through ByteBuffer.AsyncReadFrom use one buffer per case that fills up read after read (room down to one byte); every fifth case first makes a connection with a PRNG-chosen set of socket options (ReuseAddr, NoDelay, ReusePort; dialed or accepted through a sonic listener), completes an AsyncWriteAll of 0.3-2 MB against a slowly reading peer, closes at once and has the peer read to the end; " +
			"cases = one connection (dialed / accepted / adapter), shrunken socket buffers in half of them, 20 KB-4 MB in each direction: reads and writes (Async*, Async*All, blocking) with buffer sizes {1,2,7,64,1K,64K,1M} interleaved with peer writes in chunks of {1 byte, small random, MSS multiples, huge}, peer drains, polls, Cancel of in-flight operations (the script continues from the reported counts), one operation in five started at the dispatch limit, reads through ByteBuffer.AsyncReadFrom and writes through ByteBuffer.WriteTo(conn) with up to 8 MiB staged, an 8 MiB adapter write cut short by a 40 ms deadline, and a peer half-close or reset in the middle of a third of the cases; " +
			"non-trivial = at least one ReadAll/WriteAll that needed >= 2 wake-ups (the transfer was split by would-block); distinct = (transport, buffers, chunking, termination, number of such operations, read/write overlaps)",
		Assumptions: []string{
			"TCP may coalesce or split arbitrarily: the oracle is offset-based and never assumes segment boundaries",
			"after a peer reset only 'reported <= transferred' is required (bytes in flight may be discarded)",
			"AsyncAdapter writes are at most 64 KiB and its peer is drained by a helper goroutine: net.Conn.Write blocks the loop goroutine when the socket is full (adapter design)",
		},
		NumCases:    func(tier, build string) int { return vf.Tiered(tier, 240, 12000) },
		Floor:       func(tier string) int { return vf.Tiered(tier, 10, 100) },
		CaseTimeout: 300 * time.Second,
		Run:         runC02,
	})
}
