package checks

import (
	"bytes"
	"errors"
	"fmt"
	"io"
	"math"
	"strings"
	"time"

	"github.com/talostrading/sonic"
	"github.com/talostrading/sonic/sonicerrors"

	"verif/internal/vf"
)

// C09 - ByteBuffer behaves as three adjacent FIFO regions.
//
// Oracle: a reference model (three byte lists + the list of live slots) run in lock-step with the real
// buffer over random call sequences covering the whole public API, with integer arguments drawn from the
// hostile classes. After EVERY call the observable state (Saved, Data, SavedSlot of each live slot, the
// five length accessors) is compared with the model. Spare capacity is poisoned with a canary so that a
// reslice beyond the committed length shows up as a content mismatch.

const c09Canary = 0xA5

type c09Slot struct {
	slot sonic.Slot
	data []byte
}

type c09Model struct {
	saved, read, write []byte
	slots              []c09Slot
	gen                uint64
	off                int
}

func (m *c09Model) fresh(n int) []byte {
	b := make([]byte, n)
	vf.GenFill(b, m.gen, m.off)
	m.off += n
	// avoid the canary value inside generated data so a canary leak is unambiguous
	for i := range b {
		if b[i] == c09Canary {
			b[i] = c09Canary ^ 0xff
		}
	}
	return b
}

type c09Reader struct {
	data []byte
	err  error
	got  int // len(p) the buffer offered
}

func (r *c09Reader) Read(p []byte) (int, error) {
	r.got = len(p)
	if r.err != nil {
		return 0, r.err
	}
	n := copy(p, r.data)
	r.data = r.data[:n]
	return n, nil
}

func (r *c09Reader) AsyncRead(p []byte, cb sonic.AsyncCallback) {
	n, err := r.Read(p)
	cb(err, n)
}
func (r *c09Reader) AsyncReadAll(p []byte, cb sonic.AsyncCallback) { r.AsyncRead(p, cb) }

type c09Writer struct {
	chunk   int // max bytes per Write call
	failAt  int // fail (0, err) once this many bytes were accepted; -1 never
	got     []byte
	calls   int
	failure error
}

func (w *c09Writer) Write(p []byte) (int, error) {
	w.calls++
	if w.failAt >= 0 && len(w.got) >= w.failAt {
		return 0, w.failure
	}
	n := len(p)
	if w.chunk > 0 && n > w.chunk {
		n = w.chunk
	}
	if w.failAt >= 0 && len(w.got)+n > w.failAt {
		n = w.failAt - len(w.got)
	}
	w.got = append(w.got, p[:n]...)
	return n, nil
}

func (w *c09Writer) AsyncWrite(p []byte, cb sonic.AsyncCallback) {
	n, err := w.Write(p)
	cb(err, n)
}

func (w *c09Writer) AsyncWriteAll(p []byte, cb sonic.AsyncCallback) {
	if w.failAt >= 0 {
		k := w.failAt
		if k > len(p) {
			k = len(p)
		}
		w.got = append(w.got, p[:k]...)
		cb(w.failure, k)
		return
	}
	w.got = append(w.got, p...)
	cb(nil, len(p))
}

func argClass(n, avail int) string {
	switch {
	case n == math.MinInt:
		return "MinInt"
	case n == math.MaxInt:
		return "MaxInt"
	case n < 0:
		return "neg"
	case n == 0:
		return "zero"
	case n < avail:
		return "lt"
	case n == avail:
		return "eq"
	case n == avail+1:
		return "eq+1"
	default:
		return "gt"
	}
}

func hostileInt(r *vf.Rand, avail int) int {
	switch r.Intn(12) {
	case 0:
		return math.MinInt
	case 1:
		return -1
	case 2:
		return 0
	case 3:
		return 1
	case 4:
		return avail - 1
	case 5:
		return avail
	case 6:
		return avail + 1
	case 7:
		return 2*avail + 1
	case 8:
		return math.MaxInt
	case 9:
		return -r.Intn(1000) - 2
	default:
		if avail <= 0 {
			return r.Intn(4)
		}
		return r.Intn(avail + 1)
	}
}

func runC09(c *vf.Case) {
	r := c.Rng
	b := sonic.NewByteBuffer()
	m := &c09Model{gen: r.U64()}
	steps := r.Range(20, 300)
	big := r.Chance(1, 3) // cases that grow across reallocation
	var shape strings.Builder
	reallocs, midDiscards := 0, 0

	poison := func() {
		b.Claim(func(p []byte) int {
			for i := range p {
				p[i] = c09Canary
			}
			return 0
		})
	}

	check := func(op string) bool {
		ok := true
		if i := strings.IndexByte(op, '/'); i >= 0 {
			op = op[:i] // finding keys carry the method, not the argument class
		}
		if got := b.Saved(); !bytes.Equal(got, m.saved) {
			c.Failf("saved-mismatch-after-"+op, "after %s: Saved() differs from model (len got %d want %d, first diff at %d)", op, len(got), len(m.saved), firstDiff(got, m.saved))
			ok = false
		}
		if got := b.Data(); !bytes.Equal(got, m.read) {
			c.Failf("data-mismatch-after-"+op, "after %s: Data() differs from model (len got %d want %d, first diff at %d)", op, len(got), len(m.read), firstDiff(got, m.read))
			ok = false
		}
		if b.SaveLen() != len(m.saved) || b.ReadLen() != len(m.read) || b.WriteLen() != len(m.write) {
			c.Failf("lengths-mismatch-after-"+op, "after %s: SaveLen/ReadLen/WriteLen = %d/%d/%d, model %d/%d/%d", op,
				b.SaveLen(), b.ReadLen(), b.WriteLen(), len(m.saved), len(m.read), len(m.write))
			ok = false
		}
		if b.SaveLen()+b.ReadLen()+b.WriteLen() != b.Len() {
			c.Failf("region-sum-after-"+op, "after %s: SaveLen+ReadLen+WriteLen=%d != Len=%d", op, b.SaveLen()+b.ReadLen()+b.WriteLen(), b.Len())
			ok = false
		}
		if b.Len() > b.Cap() || b.Reserved() != b.Cap()-b.Len() {
			c.Failf("cap-accounting-after-"+op, "after %s: Len=%d Cap=%d Reserved=%d", op, b.Len(), b.Cap(), b.Reserved())
			ok = false
		}
		for i, s := range m.slots {
			if s.slot.Index < 0 || s.slot.Index+s.slot.Length > b.SaveLen() {
				c.Failf("slot-out-of-save-area-after-"+op, "after %s: live slot %d = %+v outside save area of %d", op, i, s.slot, b.SaveLen())
				ok = false
				continue
			}
			if got := b.SavedSlot(s.slot); !bytes.Equal(got, s.data) {
				c.Failf("savedslot-mismatch-after-"+op, "after %s: SavedSlot(%+v) differs from the bytes saved under it", op, s.slot)
				ok = false
			}
		}
		c.Count("state_comparisons", 1)
		return ok
	}

	for step := 0; step < steps && !c.Failed(); step++ {
		capBefore := b.Cap()
		if b.Cap() <= 4096 || r.Chance(1, 8) {
			poison()
		}
		op := r.Intn(26)
		name := ""
		switch op {
		case 0, 1: // Write
			n := r.Intn(40)
			if big && r.Chance(1, 4) {
				n = r.Range(200, 1500)
			}
			data := m.fresh(n)
			name = "Write"
			c.Logf("Write(%d bytes)", n)
			k, err := b.Write(data)
			if k != n || err != nil {
				c.Failf("write-return", "Write(%d) returned (%d,%v)", n, k, err)
			}
			m.write = append(m.write, data...)
		case 2: // WriteByte
			data := m.fresh(1)
			name = "WriteByte"
			c.Logf("WriteByte")
			if err := b.WriteByte(data[0]); err != nil {
				c.Failf("writebyte-return", "WriteByte returned %v", err)
			}
			m.write = append(m.write, data...)
		case 3: // WriteString
			n := r.Intn(20)
			data := m.fresh(n)
			name = "WriteString"
			c.Logf("WriteString(%d bytes)", n)
			k, err := b.WriteString(string(data))
			if k != n || err != nil {
				c.Failf("writestring-return", "WriteString(%d) returned (%d,%v)", n, k, err)
			}
			m.write = append(m.write, data...)
		case 4, 5: // Claim
			avail := b.Reserved()
			n := hostileInt(r, avail)
			name = "Claim/" + argClass(n, avail)
			c.Logf("Claim(fn returning %d) with %d reserved", n, avail)
			var wrote []byte
			offered := -1
			b.Claim(func(p []byte) int {
				offered = len(p)
				k := n
				if k > len(p) {
					k = len(p)
				}
				if k > 0 {
					wrote = m.fresh(k)
					copy(p, wrote)
				}
				return n
			})
			if offered != avail {
				c.Failf("claim-offered", "Claim offered %d bytes, Reserved() was %d", offered, avail)
			}
			if n >= 0 && n <= avail {
				m.write = append(m.write, wrote...)
			} // else: ignored (a clamp would be equally acceptable, see below)
			if n > avail && b.WriteLen() == len(m.write)+avail {
				m.write = append(m.write, wrote...) // clamped
			}
		case 6, 7: // ClaimFixed
			avail := b.Reserved()
			n := hostileInt(r, avail)
			name = "ClaimFixed/" + argClass(n, avail)
			c.Logf("ClaimFixed(%d) with %d reserved", n, avail)
			got := b.ClaimFixed(n)
			switch {
			case n >= 0 && n <= avail:
				if len(got) != n {
					c.Failf("claimfixed-length", "ClaimFixed(%d) with %d reserved returned %d bytes", n, avail, len(got))
				}
			default:
				if len(got) != 0 && !(n > avail && len(got) == avail) {
					c.Failf("claimfixed-out-of-range", "ClaimFixed(%d) with %d reserved returned %d bytes (neither ignored nor clamped)", n, avail, len(got))
				}
			}
			if len(got) > 0 {
				data := m.fresh(len(got))
				copy(got, data)
				m.write = append(m.write, data...)
			}
		case 8, 9: // Commit
			n := hostileInt(r, len(m.write))
			name = "Commit/" + argClass(n, len(m.write))
			c.Logf("Commit(%d) with %d uncommitted", n, len(m.write))
			b.Commit(n)
			if n > 0 {
				k := n
				if k > len(m.write) {
					k = len(m.write)
					if b.ReadLen() == len(m.read) { // ignored instead of clamped: acceptable
						k = 0
					}
				}
				m.read = append(m.read, m.write[:k]...)
				m.write = m.write[k:]
			}
		case 10, 11: // Consume
			n := hostileInt(r, len(m.read))
			name = "Consume/" + argClass(n, len(m.read))
			c.Logf("Consume(%d) with %d readable", n, len(m.read))
			b.Consume(n)
			if n > 0 {
				k := n
				if k > len(m.read) {
					k = len(m.read)
					if b.ReadLen() == len(m.read) {
						k = 0
					}
				}
				m.read = m.read[k:]
			}
		case 12, 13: // Save
			n := hostileInt(r, len(m.read))
			name = "Save/" + argClass(n, len(m.read))
			c.Logf("Save(%d) with %d readable", n, len(m.read))
			slot := b.Save(n)
			k := n
			if k > len(m.read) {
				k = len(m.read)
			}
			if k <= 0 {
				if slot.Length != 0 {
					c.Failf("save-nonpositive", "Save(%d) with %d readable returned %+v", n, len(m.read), slot)
				}
			} else {
				if slot.Length == 0 && n > len(m.read) {
					// ignored instead of clamped: acceptable
				} else {
					if slot.Length != k || slot.Index != len(m.saved) {
						c.Failf("save-slot", "Save(%d) returned %+v, expected {Index:%d Length:%d}", n, slot, len(m.saved), k)
					}
					data := append([]byte(nil), m.read[:k]...)
					m.saved = append(m.saved, data...)
					m.read = m.read[k:]
					m.slots = append(m.slots, c09Slot{slot: sonic.Slot{Index: len(m.saved) - k, Length: k}, data: data})
				}
			}
		case 14, 15: // Discard a live slot
			if len(m.slots) == 0 {
				// Discard of a non-positive-length slot must be a no-op
				s := sonic.Slot{Index: r.Intn(4), Length: -r.Intn(3)}
				name = "Discard/nonpositive"
				c.Logf("Discard(%+v) (non-positive length)", s)
				if d := b.Discard(s); d != 0 {
					c.Failf("discard-nonpositive", "Discard(%+v) returned %d", s, d)
				}
				break
			}
			i := r.Intn(len(m.slots))
			if r.Chance(1, 4) {
				i = 0
			} else if r.Chance(1, 4) {
				i = len(m.slots) - 1
			}
			s := m.slots[i]
			pos := "middle"
			if i == 0 {
				pos = "oldest"
			} else if i == len(m.slots)-1 {
				pos = "newest"
			}
			if i > 0 && i < len(m.slots)-1 {
				midDiscards++
			}
			name = "Discard/" + pos
			c.Logf("Discard(%+v) (%s of %d live slots)", s.slot, pos, len(m.slots))
			if d := b.Discard(s.slot); d != s.slot.Length {
				c.Failf("discard-return", "Discard(%+v) returned %d", s.slot, d)
			}
			m.saved = append(append([]byte(nil), m.saved[:s.slot.Index]...), m.saved[s.slot.Index+s.slot.Length:]...)
			rest := append([]c09Slot(nil), m.slots[:i]...)
			for _, later := range m.slots[i+1:] {
				// documented protocol: slots that FOLLOW a discarded slot in the save area are re-indexed
				later.slot = sonic.OffsetSlot(s.slot.Length, later.slot)
				rest = append(rest, later)
			}
			m.slots = rest
		case 16: // DiscardAll
			name = "DiscardAll"
			c.Logf("DiscardAll with %d saved", len(m.saved))
			b.DiscardAll()
			m.saved = nil
			m.slots = nil
		case 17: // Reserve
			n := hostileInt(r, b.Reserved())
			if n > 1<<20 {
				n = r.Intn(3000) // assumption: sizes <= 1 MiB
			}
			if big && r.Chance(1, 3) {
				n = b.Reserved() + r.Range(1, 2000)
			}
			name = "Reserve/" + argClass(n, b.Reserved())
			c.Logf("Reserve(%d) with %d reserved", n, b.Reserved())
			b.Reserve(n)
			if b.Reserved() < n {
				c.Failf("reserve-too-small", "after Reserve(%d): Reserved()=%d", n, b.Reserved())
			}
		case 18: // ShrinkBy
			n := hostileInt(r, len(m.write))
			name = "ShrinkBy/" + argClass(n, len(m.write))
			c.Logf("ShrinkBy(%d) with %d uncommitted", n, len(m.write))
			got := b.ShrinkBy(n)
			want := n
			if want > len(m.write) {
				want = len(m.write)
			}
			if want < 0 {
				want = 0
			}
			if got != want && !(got == 0 && n > len(m.write)) {
				c.Failf("shrinkby-return", "ShrinkBy(%d) with %d uncommitted returned %d", n, len(m.write), got)
			}
			if got >= 0 && got <= len(m.write) {
				m.write = m.write[:len(m.write)-got]
			}
		case 19: // ShrinkTo
			n := hostileInt(r, len(m.write))
			name = "ShrinkTo/" + argClass(n, len(m.write))
			c.Logf("ShrinkTo(%d) with %d uncommitted", n, len(m.write))
			got := b.ShrinkTo(n)
			want := len(m.write) - n
			if n < 0 {
				want = len(m.write)
			}
			if want < 0 {
				want = 0
			}
			if got != want && !(got == 0 && n < 0) {
				c.Failf("shrinkto-return", "ShrinkTo(%d) with %d uncommitted returned %d", n, len(m.write), got)
			}
			if got >= 0 && got <= len(m.write) {
				m.write = m.write[:len(m.write)-got]
			}
		case 20: // PrepareRead
			n := hostileInt(r, len(m.read)+len(m.write))
			name = "PrepareRead/" + argClass(n, len(m.read)+len(m.write))
			c.Logf("PrepareRead(%d) with %d readable, %d uncommitted", n, len(m.read), len(m.write))
			err := b.PrepareRead(n)
			need := n - len(m.read)
			switch {
			case need <= 0:
				if err != nil {
					c.Failf("prepareread-enough", "PrepareRead(%d) with %d readable returned %v", n, len(m.read), err)
				}
			case need <= len(m.write):
				if err != nil {
					c.Failf("prepareread-commit", "PrepareRead(%d) with %d readable + %d uncommitted returned %v", n, len(m.read), len(m.write), err)
				}
				m.read = append(m.read, m.write[:need]...)
				m.write = m.write[need:]
			default:
				if !errors.Is(err, sonicerrors.ErrNeedMore) {
					c.Failf("prepareread-needmore", "PrepareRead(%d) with %d available returned %v", n, len(m.read)+len(m.write), err)
				}
			}
		case 21: // Read
			n := r.Intn(len(m.read) + 4)
			if r.Chance(1, 6) {
				n = 0
			}
			name = "Read"
			if len(m.read) == 0 {
				name = "Read/empty"
			}
			dst := make([]byte, n)
			c.Logf("Read(dst of %d) with %d readable, %d saved", n, len(m.read), len(m.saved))
			k, err := b.Read(dst)
			switch {
			case n == 0:
				if k != 0 {
					c.Failf("read-empty-dst", "Read(empty dst) returned %d", k)
				}
			case len(m.read) == 0:
				if err == nil {
					c.Failf("read-nothing-readable-nil-error", "Read with nothing readable (saved=%d) returned (%d, nil)", len(m.saved), k)
				}
				if k != 0 {
					c.Failf("read-nothing-readable-bytes", "Read with nothing readable returned %d bytes", k)
				}
			default:
				want := n
				if want > len(m.read) {
					want = len(m.read)
				}
				if k != want || err != nil || !bytes.Equal(dst[:k], m.read[:want]) {
					c.Failf("read-content", "Read(%d) with %d readable returned (%d,%v) / wrong bytes", n, len(m.read), k, err)
				}
				if k >= 0 && k <= len(m.read) {
					m.read = m.read[k:]
				}
			}
		case 22: // ReadByte
			name = "ReadByte"
			if len(m.read) == 0 {
				name = "ReadByte/empty"
			}
			c.Logf("ReadByte with %d readable, %d saved", len(m.read), len(m.saved))
			v, err := b.ReadByte()
			if len(m.read) == 0 {
				if err == nil {
					c.Failf("readbyte-nothing-readable-nil-error", "ReadByte with nothing readable (saved=%d) returned (%#x, nil)", len(m.saved), v)
				}
			} else {
				if err != nil || v != m.read[0] {
					c.Failf("readbyte-content", "ReadByte returned (%#x,%v), next readable byte is %#x", v, err, m.read[0])
				}
				m.read = m.read[1:]
			}
		case 23: // UnreadByte
			name = "UnreadByte"
			c.Logf("UnreadByte with %d uncommitted", len(m.write))
			err := b.UnreadByte()
			if len(m.write) > 0 {
				if err != nil {
					c.Failf("unreadbyte", "UnreadByte with %d uncommitted returned %v", len(m.write), err)
				}
				m.write = m.write[:len(m.write)-1]
			} else if err == nil {
				c.Failf("unreadbyte-empty", "UnreadByte with empty write area returned nil")
			}
		case 24: // ReadFrom / AsyncReadFrom
			avail := b.Reserved()
			n := r.Intn(avail + 3)
			rd := &c09Reader{data: m.fresh(n)}
			if r.Chance(1, 6) {
				rd.err = io.ErrUnexpectedEOF
			}
			async := r.Bool()
			name = "ReadFrom"
			if async {
				name = "AsyncReadFrom"
			}
			c.Logf("%s(reader with %d bytes, err=%v) with %d reserved", name, n, rd.err, avail)
			var k int
			var err error
			if async {
				calls := 0
				b.AsyncReadFrom(rd, func(e error, nn int) { calls++; err = e; k = nn })
				if calls != 1 {
					c.Failf("asyncreadfrom-callback-count", "AsyncReadFrom invoked its callback %d times", calls)
				}
			} else {
				var kk int64
				kk, err = b.ReadFrom(rd)
				k = int(kk)
			}
			if rd.got != avail {
				c.Failf("readfrom-offered", "%s offered the reader %d bytes, Reserved() was %d", name, rd.got, avail)
			}
			if rd.err != nil {
				if err == nil {
					c.Failf("readfrom-error-lost", "%s swallowed the reader's error", name)
				}
			} else {
				if err != nil || k != len(rd.data) {
					c.Failf("readfrom-return", "%s returned (%d,%v), reader supplied %d", name, k, err, len(rd.data))
				}
				m.write = append(m.write, rd.data...)
			}
		case 25: // WriteTo / AsyncWriteTo
			w := &c09Writer{chunk: r.Intn(8), failAt: -1, failure: io.ErrClosedPipe}
			if r.Chance(1, 4) {
				w.failAt = r.Intn(len(m.read) + 2)
			}
			async := r.Bool()
			name = "WriteTo"
			if async {
				name = "AsyncWriteTo"
			}
			c.Logf("%s(writer chunk=%d failAt=%d) with %d readable", name, w.chunk, w.failAt, len(m.read))
			var k int
			var err error
			if async {
				calls := 0
				b.AsyncWriteTo(w, func(e error, nn int) { calls++; err = e; k = nn })
				if calls != 1 {
					c.Failf("asyncwriteto-callback-count", "AsyncWriteTo invoked its callback %d times", calls)
				}
				if err == nil {
					if k != len(m.read) || !bytes.Equal(w.got, m.read) {
						c.Failf("asyncwriteto-content", "AsyncWriteTo wrote %d bytes (cb n=%d), readable was %d / content differs", len(w.got), k, len(m.read))
					}
					m.read = nil
				} else if !bytes.Equal(w.got, m.read[:min(len(w.got), len(m.read))]) {
					c.Failf("asyncwriteto-content", "AsyncWriteTo handed the writer bytes that are not the readable prefix")
				}
			} else {
				var kk int64
				kk, err = b.WriteTo(w)
				k = int(kk)
				if k != len(w.got) {
					c.Failf("writeto-count", "WriteTo returned %d, writer accepted %d", k, len(w.got))
				}
				if len(w.got) > len(m.read) || !bytes.Equal(w.got, m.read[:len(w.got)]) {
					c.Failf("writeto-content", "WriteTo handed the writer bytes that are not the readable prefix (accepted %d of %d)", len(w.got), len(m.read))
				} else {
					m.read = m.read[len(w.got):]
				}
				if w.failAt < 0 && (err != nil || len(m.read) != 0) {
					c.Failf("writeto-incomplete", "WriteTo to a healthy writer returned %v with %d bytes left", err, len(m.read))
				}
			}
		}
		if r.Chance(1, 60) {
			name = "Reset"
			c.Logf("Reset")
			b.Reset()
			m.saved, m.read, m.write, m.slots = nil, nil, nil, nil
		}
		if b.Cap() != capBefore {
			reallocs++
			c.Count("reallocations", 1)
		}
		c.Cover("method_argclass", name)
		base := name
		if i := strings.IndexByte(base, '/'); i >= 0 {
			base = base[:i]
		}
		shape.WriteString(base[:min(4, len(base))])
		c.Count("calls", 1)
		c.Max("max_saved_region", int64(len(m.saved)))
		c.Max("max_read_region", int64(len(m.read)))
		c.Max("max_write_region", int64(len(m.write)))
		c.Max("max_live_slots", int64(len(m.slots)))
		if !check(name) {
			break
		}
	}
	c.Count("discards_in_the_middle", midDiscards)
	if reallocs > 0 || midDiscards > 0 {
		c.NonTrivial(fmt.Sprintf("%x", vf.HashString(shape.String())))
	}
}

func firstDiff(a, b []byte) int {
	n := min(len(a), len(b))
	for i := 0; i < n; i++ {
		if a[i] != b[i] {
			return i
		}
	}
	return n
}

func init() {
	register(&vf.Check{
		ID:        "C09",
		Level:     "exploration",
		Technique: "reference-model monitor (three byte lists + live slots) compared after every call of random API histories; canary-poisoned spare capacity; checkptr build",
		Rule: "cases = random call sequences (20-300 calls) over Write/WriteByte/WriteString/Claim/ClaimFixed/Commit/Consume/Save/Discard/DiscardAll/Reserve/ShrinkBy/ShrinkTo/PrepareRead/Read/ReadByte/UnreadByte/ReadFrom/AsyncReadFrom/WriteTo/AsyncWriteTo/Reset with integer arguments from {MinInt,-k,-1,0,1,avail-1,avail,avail+1,2*avail+1,MaxInt,random}; " +
			"non-trivial = the sequence reallocated the backing array or discarded a slot from the middle of the save area; distinct = distinct sequences of method names",
		Assumptions: []string{
			"Discard is only given live slots (re-indexed with OffsetSlot as documented) or slots of non-positive length",
			"Reserve/Write sizes stay <= 1 MiB (an allocation of 2^62 bytes cannot succeed in any implementation)",
			"for out-of-range integer arguments both 'clamped' and 'ignored' outcomes are accepted, as the statement allows either",
			"io.Writer/io.Reader test doubles return either (n>0, nil) or (0, err), never both",
			"Prefault (zeroes the whole backing array by design) is not part of the API list of the statement and is not called",
		},
		Builds:      func(string) []string { return []string{"checkptr"} },
		NumCases:    func(tier, build string) int { return vf.Tiered(tier, 12000, 3000000) },
		Floor:       func(tier string) int { return vf.Tiered(tier, 500, 20000) },
		CaseTimeout: 30 * time.Second,
		Run:         runC09,
	})
}
