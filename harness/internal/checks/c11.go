package checks

import (
	"bytes"
	"encoding/binary"
	"fmt"
	"math"
	"os"
	"path/filepath"
	"strconv"
	"strings"
	"syscall"
	"time"

	sbytes "github.com/talostrading/sonic/bytes"

	"verif/internal/vf"
)

// C11 - MirroredBuffer: contiguous-claim ring for every accepted size.
//
// Oracle: a model ring kept as plain integers (head, used, tail = position of the next commit, no masks),
// a window slice over the first mapping (the full-size claim of the empty buffer) through which physical
// bytes are read back, /proc/self/maps, /dev/shm and the descriptor table.

var c11Sizes = []int{1, 4095, 4096, 4097, 2 * 4096, 3 * 4096, 4 * 4096, 5 * 4096, 6 * 4096, 7 * 4096, 8 * 4096,
	12 * 4096, 16 * 4096, 31 * 4096, 32 * 4096, 10000, 100000,
	1 << 20, 1<<20 + 1, 3<<20 + 4096} // large enough for huge-page alignment games in the allocator

func fdCount() int {
	ents, err := os.ReadDir("/proc/self/fd")
	if err != nil {
		return -1
	}
	return len(ents) - 1 // minus the descriptor of the directory listing itself
}

func mapsContain(lo, hi uintptr) (bool, string) {
	b, err := os.ReadFile("/proc/self/maps")
	if err != nil {
		return false, ""
	}
	for _, line := range strings.Split(string(b), "\n") {
		f := strings.Fields(line)
		if len(f) == 0 {
			continue
		}
		se := strings.SplitN(f[0], "-", 2)
		if len(se) != 2 {
			continue
		}
		s, err1 := strconv.ParseUint(se[0], 16, 64)
		e, err2 := strconv.ParseUint(se[1], 16, 64)
		if err1 != nil || err2 != nil {
			continue
		}
		if uintptr(s) < hi && lo < uintptr(e) {
			return true, line
		}
	}
	return false, ""
}

// c11Huge: buffers of 4 GiB and more (never prefaulted: virtual memory only, a handful of pages are touched). Positions
// are followed with plain integers; every claim must start at the ring position the commits so far put the tail at,
// the stamps written at both ends of every committed claim must still be there while it is unconsumed, and a claim
// that crosses the end of the ring must show up at its start.
func c11Huge(c *vf.Case) {
	r := c.Rng
	size := []int{4 << 30, 6 << 30, 8<<30 + 4096, 5<<30 + 3*4096}[r.Intn(4)]
	b, err := sbytes.NewMirroredBuffer(size, false)
	if err != nil {
		c.Logf("huge buffer of %d bytes: constructor failed here (%v): probe skipped", size, err)
		c.Count("huge_buffer_probes_skipped", 1)
		return
	}
	defer b.Destroy()
	if b.Size() != size {
		c.Failf("size-not-rounded-up-to-page", "NewMirroredBuffer(%d).Size()=%d", size, b.Size())
		return
	}
	window := b.Claim(size)
	if len(window) != size {
		c.Failf("fresh-full-claim", "fresh buffer of %d granted a claim of %d", size, len(window))
		return
	}
	base := uintptr(sliceAddr(window))
	type stamp struct {
		pos int // ring position
		val uint64
	}
	var stamps []stamp // of committed, unconsumed claims, oldest first (two per claim)
	head, used, tail := 0, 0, 0
	put := func(p []byte, v uint64) { binary.LittleEndian.PutUint64(p, v) }
	at := func(pos int) uint64 { return binary.LittleEndian.Uint64(window[pos : pos+8]) } // the window is 2*size long in memory; pos < size
	_ = at
	big := []int{1 << 32, 1<<32 + 4096, 5 << 30, 1<<31 + 8192, 3 << 30}
	for step := 0; step < 12 && !c.Failed(); step++ {
		free := size - used
		if free >= 16 {
			n := big[r.Intn(len(big))]
			if r.Chance(1, 3) {
				n = free - r.Intn(2)*4096
			}
			if n > free {
				n = free
			}
			if n < 16 {
				n = 16
			}
			s := b.Claim(n)
			if len(s) != n {
				c.Failf("claim-length", "Claim(%d) with %d free returned %d bytes (size=%d)", n, free, len(s), size)
				return
			}
			off := int(uintptr(sliceAddr(s)) - base)
			c.Logf("huge size=%d: Claim(%d) at offset %d (model tail %d, used %d)", size, n, off, tail, used)
			if off != tail {
				c.Failf("claim-not-at-ring-tail", "Claim(%d) starts at offset %d, successive commits put the tail at %d (size=%d, power-of-two=%v)", n, off, tail, size, size&(size-1) == 0)
				return
			}
			v1, v2 := r.U64(), r.U64()
			put(s[:8], v1)
			put(s[n-8:], v2)
			if off+n > size {
				over := off + n - size
				if over >= 8 && binary.LittleEndian.Uint64(window[over-8:over]) != v2 {
					c.Failf("mirror-not-same-memory", "bytes written through a claim crossing the ring end at [%d,%d) are not visible at the ring start (size=%d)", size, off+n, size)
					return
				}
			}
			if got := b.Commit(n); got != n {
				c.Failf("commit-return", "Commit(%d) with %d free returned %d", n, free, got)
				return
			}
			stamps = append(stamps, stamp{off, v1}, stamp{(off + n - 8) % size, v2})
			tail = (tail + n) % size
			used += n
		}
		// every stamp of an unconsumed claim is still there
		for _, st := range stamps {
			var got uint64
			if st.pos+8 <= size {
				got = binary.LittleEndian.Uint64(window[st.pos : st.pos+8])
			} else {
				continue // straddles the end of the ring: visible through the mirror only, checked when it was written
			}
			if got != st.val {
				c.Failf("used-bytes-corrupted-after-Commit", "huge buffer (size=%d): the bytes at ring position %d of a committed, unconsumed claim changed", size, st.pos)
				return
			}
		}
		if b.UsedSpace() != used || b.FreeSpace() != size-used {
			c.Failf("space-accounting-after-Commit", "after Commit: UsedSpace=%d FreeSpace=%d Size=%d, model used=%d", b.UsedSpace(), b.FreeSpace(), b.Size(), used)
			return
		}
		// consume whole claims from the oldest
		for len(stamps) > 0 && r.Bool() {
			first, last := stamps[0], stamps[1]
			n := (last.pos + 8 - first.pos + size) % size
			if n == 0 {
				n = size
			}
			if got := b.Consume(n); got != n {
				c.Failf("consume-return", "Consume(%d) with %d used returned %d", n, used, got)
				return
			}
			head = (head + n) % size
			used -= n
			stamps = stamps[2:]
		}
	}
	c.Count("huge_buffer_probes", 1)
	c.Cover("huge_sizes", fmt.Sprintf("%d", size))
}

func runC11(c *vf.Case) {
	if c.Index%97 == 3 {
		c11Huge(c)
		if c.Failed() {
			return
		}
	}
	r := c.Rng
	req := c11Sizes[c.Index%len(c11Sizes)]
	page := syscall.Getpagesize()
	if c.Index%3 == 2 {
		// "every accepted size": requests outside the catalogue - powers of two below a page and their neighbours
		// (rounded up to one page), arbitrary byte counts, arbitrary page multiples
		switch r.Intn(4) {
		case 0:
			req = 1 << uint(r.Range(1, 11))
		case 1:
			req = 1<<uint(r.Range(1, 16)) + r.Range(-1, 1)
		case 2:
			req = r.Range(1, 5*page)
		default:
			req = r.Range(1, 64) * page
		}
		if req < 1 {
			req = 1
		}
		c.Count("requests_drawn_outside_the_catalogue", 1)
	}
	want := req
	if rem := req % page; rem > 0 {
		want += page - rem
	}
	fdsBefore := fdCount()
	prefault := r.Chance(1, 4) || (req >= 1<<20 && r.Bool())
	b, err := sbytes.NewMirroredBuffer(req, prefault)
	if err != nil {
		c.Failf("constructor-failed", "NewMirroredBuffer(%d) failed: %v", req, err)
		return
	}
	c.Logf("NewMirroredBuffer(%d, prefault=%v) -> Size()=%d name=%s", req, prefault, b.Size(), b.Name())
	size := b.Size()
	if size != want {
		c.Failf("size-not-rounded-up-to-page", "NewMirroredBuffer(%d).Size()=%d, want %d", req, size, want)
	}
	pow2 := size&(size-1) == 0
	window := b.Claim(size)
	if len(window) != size {
		c.Failf("fresh-full-claim", "fresh buffer of %d granted a claim of %d", size, len(window))
		_ = b.Destroy()
		return
	}
	base := uintptr(sliceAddr(window))
	if ok, line := mapsContain(base, base+uintptr(2*size)); !ok || !strings.Contains(line, filepath.Base(b.Name())) {
		c.Failf("mapping-not-found", "mapping [%#x,%#x) not in /proc/self/maps while the buffer is alive", base, base+uintptr(2*size))
	}

	head, used, tail := 0, 0, 0 // plain integers, tail = (head+used) % size
	model := make([]byte, size) // expected physical content of used bytes (index = physical position)
	gen := r.U64()
	genOff := 0
	var lastClaim []byte
	lastClaimOff := -1
	wraps, crossing, mirrorReads := 0, 0, 0
	var shape strings.Builder

	amount := func(avail int) int {
		switch r.Intn(10) {
		case 0:
			return 0
		case 1:
			return 1
		case 2:
			return page - 1
		case 3:
			return page
		case 4:
			return avail - 1
		case 5:
			return avail
		case 6:
			return avail + 1
		case 7:
			return size
		case 8:
			if r.Chance(1, 3) {
				// amounts whose sum with the used or free space overflows the machine integer
				return math.MaxInt - []int{0, 1, used, size - used, size}[r.Intn(5)]
			}
			return 2 * size
		default:
			return r.Intn(avail + 2)
		}
	}
	checkUsed := func(op string) {
		// used bytes must be physically intact: [head, head+used) mod size
		for i := 0; i < used; {
			p := (head + i) % size
			n := min(used-i, size-p)
			if !bytes.Equal(window[p:p+n], model[p:p+n]) {
				c.Failf("used-bytes-corrupted-after-"+op, "after %s: committed-but-unconsumed bytes at physical [%d,%d) changed (size=%d pow2=%v)", op, p, p+n, size, pow2)
				return
			}
			i += n
		}
		if b.UsedSpace() != used || b.FreeSpace() != size-used || b.UsedSpace()+b.FreeSpace() != b.Size() {
			c.Failf("space-accounting-after-"+op, "after %s: UsedSpace=%d FreeSpace=%d Size=%d, model used=%d", op, b.UsedSpace(), b.FreeSpace(), b.Size(), used)
		}
		if b.Full() != (used == size) {
			c.Failf("full-flag-after-"+op, "after %s: Full()=%v with used=%d size=%d", op, b.Full(), used, size)
		}
	}

	steps := r.Range(50, 500)
	if size > 64*1024 {
		steps = r.Range(50, 200)
	}
	for step := 0; step < steps && !c.Failed(); step++ {
		switch op := r.Intn(10); {
		case op <= 3:
			free := size - used
			n := amount(free)
			if n < 0 {
				n = 0
			}
			s := b.Claim(n)
			shape.WriteString("C")
			wantLen := min(n, free)
			c.Logf("Claim(%d) [used=%d head=%d tail=%d] -> %d bytes", n, used, head, tail, len(s))
			if len(s) != wantLen {
				c.Failf("claim-length", "Claim(%d) with %d free returned %d bytes (size=%d)", n, free, len(s), size)
				break
			}
			if len(s) == 0 {
				lastClaim, lastClaimOff = nil, -1
				break
			}
			off := int(uintptr(sliceAddr(s)) - base)
			if off < 0 || off >= size {
				c.Failf("claim-start-outside-ring", "Claim(%d) starts at offset %d outside [0,%d)", n, off, size)
				return
			}
			if off != tail {
				c.Failf("claim-not-at-ring-tail", "Claim(%d) starts at offset %d, successive commits put the tail at %d (size=%d, power-of-two=%v)", n, off, tail, size, pow2)
				return
			}
			// scribble over the claim and check what must / must not change
			vf.GenFill(s, gen, genOff)
			genOff += len(s)
			if off+len(s) > size {
				crossing++
				// the part beyond the end of the ring must be the same memory as the start of the ring
				over := off + len(s) - size
				if !bytes.Equal(window[:over], s[len(s)-over:]) {
					c.Failf("mirror-not-same-memory", "bytes written through a claim crossing the ring end at [%d,%d) are not visible at the ring start (size=%d)", size, off+len(s), size)
				}
				mirrorReads++
			}
			lastClaim, lastClaimOff = s, off
			checkUsed("Claim")
		case op <= 6:
			free := size - used
			n := amount(free)
			if n < 0 {
				n = 0
			}
			got := b.Commit(n)
			shape.WriteString("M")
			k := min(n, free)
			c.Logf("Commit(%d) [used=%d tail=%d] -> %d", n, used, tail, got)
			if got != k {
				c.Failf("commit-return", "Commit(%d) with %d free returned %d", n, free, got)
				break
			}
			// content of the committed bytes: what is physically there now
			for i := 0; i < k; i++ {
				p := (tail + i) % size
				model[p] = window[p]
			}
			if lastClaim != nil && lastClaimOff == tail {
				m := min(k, len(lastClaim))
				for i := 0; i < m; i++ {
					if p := (tail + i) % size; model[p] != lastClaim[i] {
						c.Failf("committed-bytes-not-claim-bytes", "byte %d written through the claim at %d is not at physical position %d", i, tail, p)
						break
					}
				}
			}
			if tail+k >= size && k > 0 {
				wraps++
			}
			used += k
			tail = (tail + k) % size
			lastClaim, lastClaimOff = nil, -1
			checkUsed("Commit")
		case op <= 8:
			n := amount(used)
			if n < 0 {
				n = 0
			}
			got := b.Consume(n)
			shape.WriteString("X")
			k := min(n, used)
			c.Logf("Consume(%d) [used=%d head=%d] -> %d", n, used, head, got)
			if got != k {
				c.Failf("consume-return", "Consume(%d) with %d used returned %d", n, used, got)
				break
			}
			used -= k
			head = (head + k) % size
			checkUsed("Consume")
		default:
			if r.Chance(1, 5) {
				c.Logf("Reset")
				b.Reset()
				shape.WriteString("R")
				head, used, tail = 0, 0, 0
				lastClaim, lastClaimOff = nil, -1
				checkUsed("Reset")
			}
		}
		c.Count("operations", 1)
	}
	name := b.Name()
	if err := b.Destroy(); err != nil {
		c.Failf("destroy-error", "Destroy returned %v", err)
	}
	// After munmap the Go runtime may legitimately reuse the address range for its own (anonymous)
	// mappings, so only a mapping of this buffer's backing file counts as "not released".
	if ok, line := mapsContain(base, base+uintptr(2*size)); ok && strings.Contains(line, filepath.Base(name)) {
		c.Failf("mapping-left-after-destroy", "after Destroy the range [%#x,%#x) is still mapped: %s", base, base+uintptr(2*size), line)
	}
	if _, err := os.Stat(name); err == nil {
		c.Failf("backing-file-left", "backing file %s still exists after Destroy", name)
	}
	if left, _ := filepath.Glob("/dev/shm/sonic-mirrored-buffer-*"); len(left) > 0 {
		// other children run concurrently and create/remove their files in microseconds; only our own name counts
		for _, l := range left {
			if l == name {
				c.Failf("backing-file-left", "backing file %s still in /dev/shm after Destroy", name)
			}
		}
	}
	if fdsAfter := fdCount(); fdsBefore >= 0 && fdsAfter != fdsBefore {
		c.Failf("descriptor-leak", "descriptor count %d before NewMirroredBuffer, %d after Destroy", fdsBefore, fdsAfter)
	}
	c.Count("destroy_cycles", 1)
	c.Count("wraps", wraps)
	c.Count("claims_crossing_mirror_boundary", crossing)
	c.Count("mirror_readbacks", mirrorReads)
	kind := "non-pow2"
	if pow2 {
		kind = "pow2"
	}
	c.Cover("sizes", fmt.Sprintf("req=%d size=%d %s", req, size, kind))
	if wraps > 0 {
		c.Cover("sizes_wrapped", fmt.Sprintf("%d %s", size, kind))
		c.NonTrivial(fmt.Sprintf("%d/%x", size, vf.HashString(shape.String())))
	}
}

func init() {
	register(&vf.Check{
		ID:        "C11",
		Technique: "reference-model monitor (ring positions as plain integers) over random Claim/Commit/Consume/Reset histories for every accepted size class; physical read-back through a window on the first mapping; /proc/self/maps, /dev/shm and fd census after Destroy; checkptr build",
		Rule: "plus sparse probes on buffers of 4, 5, 6 and 8 GiB (never prefaulted; positions, stamps at both ends of every claim, mirror at the ring end); " +
			"cases = (requested size from {1,4095,4096,4097,2..8,12,16,31,32 pages,10000,100000,1 MiB,1 MiB+1,3 MiB+1 page}, with and without prefault, chosen round-robin by case index; every third case draws the request instead: a power of two from 2 to 2048, a power of two up to 64 KiB plus or minus one, any byte count up to five pages, any multiple of up to 64 pages) x random history of 50-500 Claim/Commit/Consume/Reset with amounts from {0,1,page-1,page,avail-1,avail,avail+1,size,2*size,MaxInt-{0,1,used,free,size},random}, each ending in Destroy; " +
			"non-trivial = the commits wrapped around the ring end at least once on that size; distinct = (size, call-sequence shape)",
		Assumptions: []string{
			"amounts are non-negative",
			"bytes committed without having been written through a claim have whatever content the memory holds (snapshotted at commit time)",
			"kernel mmap/munmap behaviour and /proc/self/maps are trusted",
		},
		Builds:      func(string) []string { return []string{"checkptr"} },
		NumCases:    func(tier, build string) int { return vf.Tiered(tier, 20*24, 20*8500) },
		Floor:       func(tier string) int { return vf.Tiered(tier, 100, 5000) },
		CaseTimeout: 60 * time.Second,
		Run:         runC11,
	})
}
