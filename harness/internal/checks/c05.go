package checks

import (
	"encoding/binary"
	"fmt"
	"os"
	"runtime"
	"strconv"
	"sync"
	"sync/atomic"
	"time"

	"github.com/anishathalye/porcupine"
	"github.com/talostrading/sonic"
	"golang.org/x/sys/unix"

	"verif/internal/rawpeer"
	"verif/internal/sim"
	"verif/internal/vf"
)

// C05 - Post: thread-safe, exactly-once, ordered, wakes the loop.
//
// Oracles: an event log with unique ids (poster x counter) checked offline for exactly-once and thread
// identity; per-poster order as a FIFO-queue linearizability check with porcupine (partition = poster);
// bounded-progress probes for "Post from inside a posted handler" and "Post wakes a loop blocked in
// RunOne"; Posted()/Pending() at quiescence; the Go race detector over the whole workload (race build).

type c05Ev struct {
	enqueue bool
	poster  int
	id      int
}

var c05Model = porcupine.Model{
	Partition: func(history []porcupine.Operation) [][]porcupine.Operation {
		by := map[int][]porcupine.Operation{}
		for _, op := range history {
			by[op.Input.(c05Ev).poster] = append(by[op.Input.(c05Ev).poster], op)
		}
		var out [][]porcupine.Operation
		for _, v := range by {
			out = append(out, v)
		}
		return out
	},
	Init: func() any { return []int(nil) },
	Step: func(state, input, output any) (bool, any) {
		q := state.([]int)
		e := input.(c05Ev)
		if e.enqueue {
			return true, append(append([]int(nil), q...), e.id)
		}
		if len(q) == 0 || q[0] != e.id {
			return false, q
		}
		return true, append([]int(nil), q[1:]...)
	},
	Equal: func(a, b any) bool {
		x, y := a.([]int), b.([]int)
		if len(x) != len(y) {
			return false
		}
		for i := range x {
			if x[i] != y[i] {
				return false
			}
		}
		return true
	},
}

type c05Run struct {
	mu        sync.Mutex
	ops       []porcupine.Operation
	execCnt   map[[2]int]int
	badTid    int
	loopTid   int
	t0        time.Time
	total     int64
	nestedIDs int64
	posters   sync.WaitGroup
	failed    map[[2]int]bool // posts whose Post call returned an error: their handler may run once or not at all
}

func (x *c05Run) now() int64 { return int64(time.Since(x.t0)) }

func (x *c05Run) handler(poster, id int, nest int, ioc *sonic.IO, nested *int64) func() {
	return func() {
		t := x.now()
		tid := unix.Gettid()
		x.mu.Lock()
		x.execCnt[[2]int{poster, id}]++
		if tid != x.loopTid {
			x.badTid++
		}
		x.ops = append(x.ops, porcupine.Operation{ClientId: 1000, Input: c05Ev{false, poster, id}, Call: t, Output: id, Return: t + 1})
		x.mu.Unlock()
		atomic.AddInt64(&x.total, 1)
		if nest > 0 {
			// Post from inside a posted handler (the poster identity of nested posts is the handler chain)
			atomic.AddInt64(nested, 1)
			np := 1000000 + int(atomic.AddInt64(&x.nestedIDs, 1)) // a unique poster identity per nested chain link
			x.post(ioc, np, 0, nest-1, nested)
		}
	}
}

func (x *c05Run) post(ioc *sonic.IO, poster, id, nest int, nested *int64) {
	_ = x.postE(ioc, poster, id, nest, nested)
}

func (x *c05Run) postE(ioc *sonic.IO, poster, id, nest int, nested *int64) error {
	t := x.now()
	err := ioc.Post(x.handler(poster, id, nest, ioc, nested))
	r := x.now()
	x.mu.Lock()
	x.ops = append(x.ops, porcupine.Operation{ClientId: poster % 900, Input: c05Ev{true, poster, id}, Call: t, Output: 0, Return: r})
	if _, ok := x.execCnt[[2]int{poster, id}]; !ok {
		x.execCnt[[2]int{poster, id}] = 0
	}
	if err != nil {
		if x.failed == nil {
			x.failed = map[[2]int]bool{}
		}
		x.failed[[2]int{poster, id}] = true
	}
	x.mu.Unlock()
	return err
}

// c05Eventfds lists the eventfd descriptors of this process.
func c05Eventfds() map[int]bool {
	out := map[int]bool{}
	ents, _ := os.ReadDir("/proc/self/fd")
	for _, e := range ents {
		n, err := strconv.Atoi(e.Name())
		if err != nil {
			continue
		}
		if l, err := os.Readlink("/proc/self/fd/" + e.Name()); err == nil && l == "anon_inode:[eventfd]" {
			out[n] = true
		}
	}
	return out
}

const c05EventfdMax = uint64(0xfffffffffffffffe)

func c05EventfdAdd(fd int, v uint64) error {
	var b [8]byte
	binary.LittleEndian.PutUint64(b[:], v)
	_, err := unix.Write(fd, b[:])
	return err
}

// c05Saturated: the write of the wake-up fails. The eventfd counter of a fresh IO context is driven to its maximum
// from outside (what 2^64-2 unread wake-ups would do), so Post's write(1) returns EAGAIN. A handler whose Post
// returned nil must still run exactly once, one whose Post returned an error at most once, and Pending()/Posted()
// stay exact. Phase 2 places, through the post:after-append hook, a complete successful Post of another goroutine
// (the loop having consumed the wake-ups in between) into the window between a Post's append and its failing write.
func c05Saturated(c *vf.Case, x *c05Run, nested *int64, points map[string]int, pmu *sync.Mutex) {
	r := c.Rng
	before := c05Eventfds()
	ioc, err := sonic.NewIO()
	if err != nil {
		c.Failf("harness-setup", "NewIO: %v", err)
		return
	}
	defer ioc.Close()
	wfd := -1
	nNew := 0
	for fd := range c05Eventfds() {
		if !before[fd] {
			wfd = fd
			nNew++
		}
	}
	if nNew != 1 {
		c.Count("saturation_probe_skipped_waker_not_identified", 1)
		return
	}
	drainLoop := func(want int64) {
		for it := 0; it < 200 && atomic.LoadInt64(&x.total) < want; it++ {
			_, _ = ioc.PollOne()
		}
		for it := 0; it < 5; it++ {
			_, _ = ioc.PollOne()
		}
	}
	quiescent := func(where string) {
		if p, q := ioc.Pending(), ioc.Posted(); p != int64(q) {
			c.Failf("pending-differs-after-failed-wakeup-write", "%s: Pending()=%d, Posted()=%d on an IO context that only ever had handlers posted", where, p, q)
		}
	}
	// phase 1: sequential. k posts while the counter is saturated, from the loop goroutine or from another one
	rounds := r.Range(1, 4)
	pid := 3000
	for round := 0; round < rounds && !c.Failed(); round++ {
		if err := c05EventfdAdd(wfd, c05EventfdMax); err != nil {
			c.Count("saturation_probe_skipped_counter_not_zero", 1)
			return
		}
		k := r.Range(1, 5)
		other := r.Chance(1, 2)
		base := atomic.LoadInt64(&x.total)
		nfail := 0
		do := func() {
			for i := 0; i < k; i++ {
				pid++
				if x.postE(ioc, pid, 0, 0, nested) != nil {
					nfail++
				}
			}
		}
		if other {
			done := make(chan struct{})
			go func() { do(); close(done) }()
			<-done
		} else {
			do()
		}
		c.Logf("saturated waker, round %d: %d posts (other goroutine: %v), %d returned an error", round, k, other, nfail)
		c.Count("posts_with_a_failing_wakeup_write", nfail)
		drainLoop(base + int64(k))
		quiescent("after posts whose wake-up write failed and a drained loop")
		// an ordinary Post afterwards runs, and with it everything that was left queued
		pid++
		base2 := atomic.LoadInt64(&x.total)
		if x.postE(ioc, pid, 0, 0, nested) != nil {
			c.Count("post_after_drain_failed", 1)
		}
		drainLoop(base2 + 1)
		if p, q := ioc.Pending(), ioc.Posted(); p != 0 || q != 0 {
			c.Failf("pending-differs-after-failed-wakeup-write", "after a further successful Post and polling: Pending()=%d, Posted()=%d, want 0 and 0", p, q)
		}
	}
	if c.Failed() {
		return
	}
	// phase 2: another goroutine's Post completes inside the window of a Post whose write is then made to fail
	windows := r.Range(1, 3)
	for wi := 0; wi < windows && !c.Failed(); wi++ {
		var stage int32
		pid += 2
		a, b := pid-1, pid
		bErr := error(nil)
		drained := r.Chance(2, 3)
		sonic.VerifSetPoint(func(name string) {
			pmu.Lock()
			points[name]++
			pmu.Unlock()
			if name != "post:after-append" || !atomic.CompareAndSwapInt32(&stage, 1, 2) {
				return
			}
			if drained {
				// as if the loop had just read the wake-ups
				var buf [8]byte
				_, _ = unix.Read(wfd, buf[:])
			}
			done := make(chan struct{})
			go func() { bErr = x.postE(ioc, b, 0, 0, nested); close(done) }()
			<-done
			// and 2^64-3 more wake-ups arrive before the first poster gets to its write
			var cur [8]byte
			_, _ = unix.Read(wfd, cur[:])
			_ = c05EventfdAdd(wfd, c05EventfdMax)
		})
		if !drained {
			_ = c05EventfdAdd(wfd, c05EventfdMax)
		}
		base := atomic.LoadInt64(&x.total)
		atomic.StoreInt32(&stage, 1)
		aErr := x.postE(ioc, a, 0, 0, nested)
		sonic.VerifSetPoint(nil)
		if atomic.LoadInt32(&stage) != 2 {
			c.Count("saturation_window_hook_not_reached", 1)
			atomic.StoreInt32(&stage, 0)
		} else {
			c.Count("posts_completed_inside_the_window_of_a_failing_post", 1)
		}
		c.Logf("window %d: Post A (error %v) with a complete Post B (error %v) of another goroutine between A's append and A's wake-up write (loop read the wake-ups before B: %v)", wi, aErr != nil, bErr != nil, drained)
		if aErr != nil {
			c.Count("posts_with_a_failing_wakeup_write", 1)
		}
		drainLoop(base + 2)
		quiescent("after a Post completed inside the window of a failing Post")
		pid++
		base2 := atomic.LoadInt64(&x.total)
		_ = x.postE(ioc, pid, 0, 0, nested)
		drainLoop(base2 + 1)
		if p, q := ioc.Pending(), ioc.Posted(); p != 0 || q != 0 {
			c.Failf("pending-differs-after-failed-wakeup-write", "after a further successful Post and polling: Pending()=%d, Posted()=%d, want 0 and 0", p, q)
		}
	}
	c.Count("saturated_waker_probes", 1)
}

func runC05(c *vf.Case) {
	r := c.Rng
	runtime.LockOSThread()
	defer runtime.UnlockOSThread()
	mode := c.Index % 9
	w, err := sim.NewWorld(c)
	if err != nil {
		c.Failf("harness-setup", "NewWorld: %v", err)
		return
	}
	defer w.Teardown()
	w.LostCheck = false
	ioc := w.IOC
	x := &c05Run{execCnt: map[[2]int]int{}, loopTid: unix.Gettid(), t0: time.Now()}
	var nested int64

	// delay injection at the poller's verifPoints (between append and eventfd write, after epoll_wait, ...)
	delaySeed := r.U64()
	var dctr uint64
	points := map[string]int{}
	var pmu sync.Mutex
	if r.Chance(2, 3) {
		sonic.VerifSetPoint(func(name string) {
			n := atomic.AddUint64(&dctr, 1)
			h := vf.Mix(delaySeed, n)
			pmu.Lock()
			points[name]++
			pmu.Unlock()
			switch h % 8 {
			case 0:
				runtime.Gosched()
			case 1:
				t := time.Now()
				for time.Since(t) < time.Duration(h>>8%200)*time.Microsecond {
				}
			}
		})
		defer sonic.VerifSetPoint(nil)
	}

	switch mode {
	case 0: // nested Post: bounded-progress probe
		depth := r.Range(1, 3)
		n := r.Range(1, 20)
		// history first (two scripts in three): an ordinary small batch, then one very large batch queued between two
		// loop iterations (the queue's storage grows past 1Ki / 4Ki / 16Ki / 64Ki slots), so that the nested posts below
		// meet whatever the loop kept from it
		if r.Chance(2, 3) {
			small := r.Range(1, 64) // often more than the later batches need: their storage is then reused as it is
			burst := []int{1100, 5000, 20000, 70000}[r.Intn(4)]
			c.Logf("history: a batch of %d, then a burst of %d posts queued between two loop iterations", small, burst)
			c.Bounded("post-burst-never-dispatched", 60*time.Second, func() {
				for i := 0; i < small; i++ {
					x.post(ioc, 5, i, 0, &nested)
				}
				_, _ = ioc.PollOne()
				for i := 0; i < burst; i++ {
					x.post(ioc, 5, small+i, 0, &nested)
				}
				for it := 0; it < 2000 && int(atomic.LoadInt64(&x.total)) < small+burst; it++ {
					_, _ = ioc.PollOne()
				}
			})
			if got := int(atomic.LoadInt64(&x.total)); got != small+burst {
				c.Failf("burst-handlers-not-all-executed", "%d handlers posted from the loop goroutine before polling, %d executed", small+burst, got)
			}
			c.Count("bursts_queued_between_two_loop_iterations", 1)
			c.Max("largest_burst", int64(burst))
		}
		base := int(atomic.LoadInt64(&x.total))
		c.Logf("nested-post probe: %d handlers each posting again to depth %d", n, depth)
		c.Bounded("post-from-posted-handler-deadlocks-the-loop", 30*time.Second, func() {
			for i := 0; i < n; i++ {
				x.post(ioc, 1, i, depth, &nested)
			}
			for it := 0; it < 2000 && int(atomic.LoadInt64(&x.total)) < base+n*(depth+1); it++ {
				_, _ = ioc.PollOne()
			}
		})
		if got := int(atomic.LoadInt64(&x.total)) - base; got != n*(depth+1) {
			c.Failf("nested-post-handlers-not-all-executed", "%d handlers posted (incl. nested), %d executed", n*(depth+1), got)
		}
		c.Count("nested_post_probes", 1)
		// Post from inside an I/O completion handler and from inside a timer callback
		if o, err := w.NewObj(sim.KConnDialed, false); err == nil && !c.Failed() {
			before := atomic.LoadInt64(&x.total)
			// a handler posted from top level is still queued when the read completion posts the next one of the same
			// poster: they run in that order (the one posted from inside the completion callback is not run on the spot)
			x.post(ioc, 3, 0, 0, &nested)
			w.NextOnDone = func(op *sim.Op) { x.post(ioc, 3, 1, 1, &nested) }
			w.StartStream(o, 0, false, 8, sim.BNone, nil, true)
			w.PeerWrite(o, 4)
			if tm, err := w.NewTimer(); err == nil {
				_ = tm.T.ScheduleOnce(time.Millisecond, func() { x.post(ioc, 4, 0, 1, &nested) })
			}
			c.Bounded("post-from-io-or-timer-handler-deadlocks-the-loop", 30*time.Second, func() {
				for it := 0; it < 20000 && atomic.LoadInt64(&x.total) < before+5; it++ {
					_ = ioc.RunOneFor(time.Millisecond)
				}
			})
			if got := atomic.LoadInt64(&x.total) - before; got != 5 {
				c.Failf("post-from-io-or-timer-handler-not-executed", "5 handlers were posted from top level, a read completion and a timer callback (incl. nested), %d executed", got)
			}
			c.Count("posts_from_io_and_timer_handlers", 1)
			// the same from a completion callback that runs INSIDE the start call (data already buffered): the handler
			// it posts is queued behind the one posted before the call, not run on the spot
			if !c.Failed() && !o.Closed {
				w.PeerWrite(o, 4)
				rawpeer.WaitReadable(o.Raw, 1000)
				before2 := atomic.LoadInt64(&x.total)
				x.post(ioc, 6, 0, 0, &nested)
				w.NextOnDone = func(op *sim.Op) { x.post(ioc, 6, 1, 0, &nested) }
				if op := w.StartStream(o, 0, false, 8, sim.BNone, nil, false); op != nil && op.Calls == 1 {
					c.Count("posts_from_an_inline_completion_callback", 1)
				}
				for it := 0; it < 20000 && atomic.LoadInt64(&x.total) < before2+2; it++ {
					_ = ioc.RunOneFor(time.Millisecond)
				}
				if got := atomic.LoadInt64(&x.total) - before2; got != 2 {
					c.Failf("post-from-io-or-timer-handler-not-executed", "2 handlers were posted (top level, then an inline read completion), %d executed", got)
				}
			}
		}
	case 1: // wake probe: loop blocked in RunOne(), Post from another thread
		c.Logf("wake probe: loop blocked in RunOne, one Post from another goroutine")
		rounds := r.Range(1, 5)
		for i := 0; i < rounds && !c.Failed(); i++ {
			x.posters.Add(1)
			go func(i int) {
				defer x.posters.Done()
				time.Sleep(500 * time.Microsecond)
				x.post(ioc, 2, i, 0, &nested)
			}(i)
			before := atomic.LoadInt64(&x.total)
			c.Bounded("post-does-not-wake-blocked-loop", 30*time.Second, func() {
				for atomic.LoadInt64(&x.total) == before {
					_ = ioc.RunOne()
				}
			})
		}
		c.Count("wake_probes", rounds)
	case 2: // burst wake probe: the loop sleeps in RunOne(); several goroutines post at the same instant
		K := r.Range(2, 4)
		rounds := 1500
		c.Logf("burst wake probe: %d rounds of %d simultaneous posts against a loop blocked in RunOne", rounds, K)
		start := make([]chan int, K)
		for k := range start {
			start[k] = make(chan int, 1)
			x.posters.Add(1)
			go func(k int) {
				defer x.posters.Done()
				for round := range start[k] {
					x.post(ioc, 20+k, round, 0, &nested)
				}
			}(k)
		}
		stuck := -1
		c.Bounded("post-does-not-wake-blocked-loop", 60*time.Second, func() {
			for round := 0; round < rounds; round++ {
				want := atomic.LoadInt64(&x.total) + int64(K)
				for k := range start {
					start[k] <- round
				}
				stuck = round
				for atomic.LoadInt64(&x.total) < want {
					_ = ioc.RunOne()
				}
			}
			stuck = -1
		})
		_ = stuck
		for k := range start {
			close(start[k])
		}
		c.Count("burst_wake_rounds", rounds)
	case 3: // RunPending while other goroutines post: it may only return once the loop-owned timer has fired
		tm, terr := w.NewTimer()
		if terr != nil {
			c.Failf("harness-setup", "%v", terr)
			return
		}
		P := r.Range(2, 6)
		stop := int32(0)
		for p := 0; p < P; p++ {
			x.posters.Add(1)
			go func(p int) {
				defer x.posters.Done()
				for i := 0; atomic.LoadInt32(&stop) == 0 && i < 200000; i++ {
					x.post(ioc, 40+p, i, 0, &nested)
					if i%4 == 0 {
						runtime.Gosched()
					}
				}
			}(p)
		}
		early := 0
		rounds := r.Range(3, 8)
		for round := 0; round < rounds && !c.Failed(); round++ {
			_ = w.Arm(tm, time.Duration(r.Range(5, 25))*time.Millisecond)
			var rerr error
			c.Bounded("runpending-never-returns", 60*time.Second, func() { rerr = ioc.RunPending() })
			if rerr != nil {
				c.Failf("runpending-error", "RunPending returned %v", rerr)
			}
			if tm.Armed {
				early++
				c.Failf("runpending-returned-while-an-operation-was-in-flight", "RunPending returned although the timer armed by the loop had not fired yet (Pending() dipped to zero while other goroutines were posting)")
			}
			if low := ioc.Pending(); low < 0 {
				c.Failf("pending-negative", "Pending()=%d", low)
			}
		}
		atomic.StoreInt32(&stop, 1)
		x.posters.Wait()
		for i := 0; i < 50; i++ {
			_, _ = ioc.PollOne()
		}
		c.Count("runpending_rounds_with_concurrent_posts", rounds)
	case 8: // the wake-up write fails
		c05Saturated(c, x, &nested, points, &pmu)
	default: // concurrent posters while the loop polls, arms/cancels timers and starts/cancels reads
		P := []int{1, 4, 16}[r.Intn(3)]
		N := r.Range(200, 2500)
		if c.Tier == "thorough" && c.Build != "race" {
			N = r.Range(2000, 20000)
		}
		loopMode := r.Intn(3)
		c.Logf("%d posters x %d posts, loop mode %d, nested every 16th", P, N, loopMode)
		var wg sync.WaitGroup
		var doneFlag int32
		for p := 0; p < P; p++ {
			wg.Add(1)
			go func(p int) {
				defer wg.Done()
				for i := 0; i < N; i++ {
					nest := 0
					if i%16 == 7 {
						nest = 1
					}
					x.post(ioc, 10+p, i, nest, &nested)
					if i%8 == 0 {
						runtime.Gosched()
					}
				}
			}(p)
		}
		go func() { wg.Wait(); atomic.StoreInt32(&doneFlag, 1) }()
		// loop-side activity touching the same counters
		o, _ := w.NewObj(sim.KConnDialed, false)
		var tm *sim.Tmr
		tm, _ = w.NewTimer()
		rf, _ := w.NewRegFile(make([]byte, 4096))
		refusedRegs := 0
		maxQueue := 0
		c.Bounded("loop-or-posters-stuck", 120*time.Second, func() {
			expectAtLeast := int64(P * N)
			for it := 0; ; it++ {
				if atomic.LoadInt32(&doneFlag) == 1 && atomic.LoadInt64(&x.total) >= expectAtLeast+atomic.LoadInt64(&nested) {
					break
				}
				if q := ioc.Posted(); q > maxQueue {
					maxQueue = q
				}
				// posted handlers only ever add to the count: Pending() can never be below what the loop itself owns
				if owned := int64(w.ArmedTimers + len(w.InFlight())); ioc.Pending() < owned {
					c.Failf("pending-below-loop-owned-operations", "Pending()=%d while the loop goroutine alone has %d operations in flight (a concurrent Post made the count dip)", ioc.Pending(), owned)
					break
				}
				switch loopMode {
				case 0:
					_, _ = ioc.PollOne()
				case 1:
					_ = ioc.RunOneFor(time.Millisecond)
				default:
					if it%2 == 0 {
						_, _ = ioc.PollOne()
					} else {
						_ = ioc.RunOneFor(time.Millisecond)
					}
				}
				if it%5 == 0 && tm != nil {
					_ = w.Arm(tm, 10*time.Second)
				}
				if it%5 == 3 && tm != nil {
					w.CancelTimer(tm)
				}
				if o != nil && it%7 == 0 && o.Rd == nil {
					w.StartStream(o, 0, false, 16, sim.BNone, nil, true)
				}
				if o != nil && it%7 == 4 {
					w.Cancel(o)
				}
				if rf != nil && it%3 == 1 && rf.Rd == nil {
					// a registration the kernel refuses (regular file at the dispatch limit): the counter goes up and
					// is taken back while other goroutines are adding to it
					w.NextOnDone = nil
					w.StartStream(rf, 0, false, 8, sim.BNone, nil, true)
					refusedRegs++
				}
			}
		})
		// quiescence
		for i := 0; i < 20; i++ {
			_, _ = ioc.PollOne()
		}
		if tm != nil {
			w.CancelTimer(tm)
		}
		if o != nil {
			w.Cancel(o)
		}
		c.Max("max_posted_queue_length", int64(maxQueue))
		c.Count("posters", P)
		c.Count("refused_registrations_while_posters_run", refusedRegs)
		c.Cover("posters_x_loopmode", fmt.Sprintf("P=%d mode=%d", P, loopMode))
	}
	if c.Failed() {
		return
	}
	// offline checks over the event log - only after every posting goroutine has returned from Post and
	// recorded its event (a handler can run before the Post call that queued it has returned)
	x.posters.Wait()
	for i := 0; i < 10; i++ {
		_, _ = ioc.PollOne()
	}
	x.mu.Lock()
	ops := append([]porcupine.Operation(nil), x.ops...)
	posted := len(x.execCnt)
	for k, n := range x.execCnt {
		if x.failed[k] && n == 0 {
			continue // Post reported an error: not running the handler is a correct outcome, running it twice is not
		}
		if n != 1 {
			c.Failf("handler-executed-not-exactly-once", "handler (poster %d, #%d) executed %d times", k[0], k[1], n)
			break
		}
	}
	bad := x.badTid
	x.mu.Unlock()
	if bad > 0 {
		c.Failf("handler-ran-on-another-thread", "%d handlers ran on a thread other than the loop's", bad)
	}
	if q := ioc.Posted(); q != 0 {
		c.Failf("posted-not-zero-at-quiescence", "Posted()=%d after every handler ran", q)
	}
	if got, want := ioc.Pending(), int64(w.ShadowPending()); got != want {
		c.Failf("pending-differs-at-quiescence", "Pending()=%d at quiescence, ledger says %d (lost or duplicated updates of the operation counter)", got, want)
	}
	// per-poster FIFO order: linearizability of enqueue(Post)/dequeue(handler) against a FIFO queue
	if len(ops) <= 6000 {
		res, _ := porcupine.CheckOperationsVerbose(c05Model, ops, 20*time.Second)
		switch res {
		case porcupine.Illegal:
			if len(ops) <= 40 {
				for _, op := range ops {
					c.Logf("history: client=%d input=%+v call=%d return=%d", op.ClientId, op.Input, op.Call, op.Return)
				}
			}
			c.Failf("per-poster-order-not-fifo", "porcupine: the history of %d Post/handler events is not linearizable as per-poster FIFO queues (handlers of one poster ran out of posting order)", len(ops))
		case porcupine.Unknown:
			c.Count("porcupine_timeouts", 1)
		default:
			c.Count("porcupine_histories_checked", 1)
		}
	} else {
		// long histories: direct per-poster order check (equivalent for a single consumer)
		last := map[int]int{}
		for _, op := range ops {
			e := op.Input.(c05Ev)
			if !e.enqueue {
				if prev, ok := last[e.poster]; ok && e.id <= prev {
					c.Failf("per-poster-order-not-fifo", "poster %d: handler #%d ran after #%d", e.poster, e.id, prev)
					break
				}
				last[e.poster] = e.id
			}
		}
		c.Count("direct_order_checks", 1)
	}
	c.Count("posts", posted)
	c.Count("nested_posts", int(atomic.LoadInt64(&nested)))
	pmu.Lock()
	for k, v := range points {
		c.Count("verifpoint_"+k, v)
	}
	pmu.Unlock()
	c.NonTrivial(fmt.Sprintf("mode%d/%d/%d", mode, posted, len(points)))
}

func init() {
	register(&vf.Check{
		ID:        "C05",
		Technique: "race detector (-race build) over a concurrent Post workload + offline checkers over the recorded event log (exactly-once, thread identity, per-poster FIFO linearizability with porcupine) + bounded-progress probes (nested Post, wake-up) + delay injection at poller verifPoints",
		Rule: "cases = rounds of {1,4,16} poster goroutines x 20-300 (thorough: up to 3000) posts, every 16th handler posting again, while the locked loop goroutine cycles PollOne/RunOneFor and arms/cancels a timer, starts/cancels a socket read and starts regular-file reads whose registration epoll refuses (same counters); nested-Post probes (depth 1-3), two thirds of them after a small batch and a burst of 1100-70000 posts queued between two loop iterations; Pending() >= loop-owned operations checked every poll; wake probes (loop blocked in RunOne, Post from another goroutine); RunPending with a loop-owned 5-25 ms timer while 2-6 goroutines post continuously; burst wake probes (1500 rounds of 2-4 simultaneous posts against a loop blocked in RunOne); failing wake-up writes (one round in nine: the eventfd of a fresh IO context, found in /proc/self/fd, is driven to its maximum so that Post's write returns EAGAIN; 1-5 posts from the loop or another goroutine, then, through the post:after-append hook, a complete Post of another goroutine placed between a Post's append and its failing write, the loop having read the wake-ups in between in two of three: a handler whose Post returned nil runs exactly once, one whose Post returned an error at most once, Pending() == Posted() afterwards and both 0 after one more Post); PRNG-driven yields/spins at the verifPoints post:after-append, poll:after-wait, poll:batch-entry, dispatch:before-lock, dispatch:after-swap in two thirds of the rounds; " +
			"every round is non-trivial; distinct = (mode, number of posts, delay points hit)",
		Assumptions: []string{
			"Posted()/Pending() are compared only at quiescence",
			"handlers of different posters may interleave freely; only per-poster order is required",
			"deadlock / lost wake-up are decided by 30 s bounds on work that takes microseconds",
			"a porcupine timeout is counted, never treated as a violation",
			"a handler whose Post call returned an error may run once or not at all (both roll-back and leave-queued are accepted); only a handler whose Post returned nil must run",
		},
		Builds: func(tier string) []string {
			if tier == "thorough" {
				return []string{"race", "plain"}
			}
			return []string{"race"}
		},
		NumCases: func(tier, build string) int {
			if tier == "thorough" {
				return 640
			}
			return 48
		},
		Shards:      func(tier, build string) int { return 6 },
		Floor:       func(tier string) int { return vf.Tiered(tier, 10, 100) },
		CaseTimeout: 400 * time.Second,
		Run:         runC05,
	})
}
