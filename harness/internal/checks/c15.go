package checks

import (
	"bytes"
	"fmt"
	"strings"
	"time"

	"github.com/talostrading/sonic/codec/websocket"
	"github.com/talostrading/sonic/sonicerrors"

	"verif/internal/vf"
	"verif/internal/wsref"
)

// C15 - WebSocket protocol violations are reported, never delivered as data.
//
// wsref builds a conforming stream and exactly one mutant frame; the monitor knows its position and class
// and checks the read that reaches it, what was delivered, the Close(1002) and the refusal of writes.

type c15Mutant struct {
	class   string
	framing bool // a framing-rule violation: every API must report it, Close(1002) + refusal of writes
	msgOnly bool // a fragmentation-rule / message-size violation: message-level APIs only
}

// c15Inside is what the payload of an over-maximum frame starts with: bytes that would parse as a complete, conforming
// text frame if the reader ever took the rejected frame's payload for the continuation of the stream.
var c15Inside = wsref.Frame{Fin: true, Opcode: wsref.OpText, Payload: []byte("inside the rejected frame")}.Encode()

func c15Run(c *vf.Case, msgs []wsMsg, events []wsEvent, k int, mut c15Mutant, wire []byte, cuts []int, api string, maxSize int, deferReads bool, preClosed bool, label string) {
	s, t := newWS(c)
	if s == nil {
		return
	}
	s.SetMaxMessageSize(maxSize)
	if preClosed {
		// the session is already in its closing handshake (the client sent Close, the peer's Close has not
		// arrived yet): reads continue and violations must still be reported
		if err := s.Close(websocket.CloseNormal, ""); err != nil {
			c.Failf("local-close-failed", "Close on an active stream: %v", err)
			return
		}
		label += " after-local-close"
	}
	t.DeferReads = deferReads
	var segs [][]byte
	prev := 0
	for _, cut := range append(append([]int(nil), cuts...), len(wire)) {
		if cut > prev {
			segs = append(segs, wire[prev:cut])
			prev = cut
		}
	}
	next := 0
	feed := func() bool {
		if next >= len(segs) {
			return false
		}
		t.Feed(segs[next])
		next++
		return true
	}
	wait := func(done *int) {
		for guard := 0; *done == 0 && guard < 1<<22; guard++ {
			if t.Pump() > 0 {
				continue
			}
			if !feed() {
				return
			}
		}
		t.Pump()
	}
	fail := func(key, format string, args ...any) {
		c.Failf(key+"/"+mut.class, "%s %s class=%s at frame %d: %s", api, label, mut.class, k, fmt.Sprintf(format, args...))
	}
	frameAPI := api == "NextFrame" || api == "AsyncNextFrame"
	async := api == "AsyncNextFrame" || api == "AsyncNextMessage"
	if !async {
		for feed() {
		}
	}
	reported := false
	var reportedErr error
	queued := 0
	cancelHeld := false
	afterArm := func() {}
	if async && mut.framing && !preClosed && k == 0 && next == 0 && c.Rng.Chance(1, 6) {
		// the read that will meet the violating frame is parked on the transport; then the transport stalls and the
		// application queues hundreds of writes; then the frame arrives. The writes were accepted before the violation;
		// the Close 1002 still follows them.
		afterArm = func() {
			t.Pump()
			t.HoldWrites = true
			queued = c.Rng.Range(129, 400)
			if c.Rng.Chance(1, 3) {
				// the write the transport is holding will fail (cancelled while parked) instead of completing; what
				// is queued behind it, the Close 1002 included, goes out with the next flush
				cancelHeld = true
				queued = c.Rng.Range(1, 6)
				c.Count("violations_read_behind_a_write_that_is_then_cancelled", 1)
			}
			for i := 0; i < queued; i++ {
				s.AsyncWrite([]byte("queued before the violation"), websocket.TypeText, func(error) {})
			}
			c.Count("violations_read_with_hundreds_of_writes_queued", 1)
		}
	}
	if frameAPI {
		for i := 0; i <= k; i++ {
			var err error
			var got websocket.Frame
			if async {
				calls := 0
				s.AsyncNextFrame(func(e error, f websocket.Frame) { calls++; err = e; got = append(websocket.Frame(nil), f...) })
				if i == k && calls == 0 {
					afterArm()
				}
				wait(&calls)
				if calls != 1 {
					fail("callback-count", "callback for frame %d invoked %d times", i, calls)
					return
				}
			} else {
				var f websocket.Frame
				f, err = s.NextFrame()
				got = append(websocket.Frame(nil), f...)
			}
			if i < k {
				if err != nil {
					fail("error-before-the-violation", "conforming frame %d reported %v", i, err)
					return
				}
				if !bytes.Equal(got.Payload(), events[i].F.Payload) {
					fail("conforming-frame-differs", "frame %d before the violation differs", i)
					return
				}
				continue
			}
			if err != nil {
				reported, reportedErr = true, err
			}
		}
		if mut.msgOnly {
			return // frame-level API is not required to detect fragmentation-rule violations
		}
	} else {
		buf := make([]byte, 4*maxSize+64)
		// messages completed strictly before the violating frame are delivered intact
		done := 0
		for i, e := range events[:k] {
			if !e.Control && e.Last {
				done = e.MsgIdx + 1
			}
			_ = i
		}
		for i := 0; i <= done; i++ {
			var err error
			var n int
			if async {
				calls := 0
				s.AsyncNextMessage(buf, func(e error, nn int, _ websocket.MessageType) { calls++; err, n = e, nn })
				if i == done && calls == 0 {
					afterArm()
				}
				wait(&calls)
				if calls != 1 {
					fail("callback-count", "callback for message %d invoked %d times", i, calls)
					return
				}
			} else {
				_, n, err = s.NextMessage(buf)
			}
			if i < done {
				if err != nil {
					fail("error-before-the-violation", "conforming message %d reported %v", i, err)
					return
				}
				if !bytes.Equal(buf[:n], msgs[i].Payload) {
					fail("conforming-message-differs", "message %d before the violation differs", i)
					return
				}
				continue
			}
			if err != nil {
				reported, reportedErr = true, err
			} else {
				// delivered as application data
				fail("violation-delivered-as-data", "the read that reaches the violating frame returned a %d-byte message and no error", n)
				return
			}
		}
	}
	if !reported {
		fail("violation-not-reported", "the read that reaches the violating frame returned no error")
		return
	}
	c.Cover("errors_by_class", fmt.Sprintf("%s: %v", mut.class, reportedErr))
	c.Count("violations_reported", 1)
	if strings.HasPrefix(mut.class, "frame-over-max-") && mut.class != "frame-over-max-64" {
		// the application reads again after the rejection: whatever that read reports, it never delivers application data
		// taken from inside the rejected frame
		var err error
		var data []byte
		isData := false
		if frameAPI {
			var f websocket.Frame
			if async {
				calls := 0
				s.AsyncNextFrame(func(e error, g websocket.Frame) { calls++; err = e; f = append(websocket.Frame(nil), g...) })
				wait(&calls)
				if calls == 0 {
					err = sonicerrors.ErrWouldBlock
				}
			} else {
				var g websocket.Frame
				g, err = s.NextFrame()
				f = append(websocket.Frame(nil), g...)
			}
			if err == nil && len(f) >= 2 && (f.Opcode() == websocket.OpcodeText || f.Opcode() == websocket.OpcodeBinary || f.Opcode() == websocket.OpcodeContinuation) {
				isData, data = true, f.Payload()
			}
		} else {
			buf := make([]byte, 4*maxSize+64)
			n := 0
			if async {
				calls := 0
				s.AsyncNextMessage(buf, func(e error, nn int, _ websocket.MessageType) { calls++; err, n = e, nn })
				wait(&calls)
				if calls == 0 {
					err = sonicerrors.ErrWouldBlock
				}
			} else {
				_, n, err = s.NextMessage(buf)
			}
			if err == nil {
				isData, data = true, buf[:n]
			}
		}
		c.Count("reads_after_an_over_maximum_rejection", 1)
		if isData {
			fail("data-delivered-after-over-maximum-rejection", "the read after the rejection returned %d bytes of application data (%q) and no error: bytes of the rejected frame's payload were parsed as frames", len(data), string(data[:min(len(data), 40)]))
			return
		}
	}
	if !mut.framing {
		return
	}
	// framing violation: Close(1002) queued, application writes refused
	if s.State() == websocket.StateActive {
		fail("still-active-after-framing-violation", "State() is still active")
		return
	}
	before := len(t.Written)
	var werr error
	if queued > 0 {
		wcalls := 0
		s.AsyncWrite([]byte("after"), websocket.TypeText, func(e error) { wcalls++; werr = e })
		if cancelHeld {
			t.CancelWrites()
		}
		t.ReleaseWrites()
		for i := 0; i < 4*queued+100 && t.Pump() > 0; i++ {
		}
		if wcalls == 0 {
			werr = nil
		}
	} else {
		werr = s.Write([]byte("after"), websocket.TypeText)
	}
	if werr == nil {
		fail("write-accepted-after-framing-violation", "Write after the violation returned nil")
		return
	}
	if queued == 0 {
		_ = s.Flush()
	} else {
		calls := 0
		s.AsyncFlush(func(error) { calls++ })
		for i := 0; i < 4*queued+100 && t.Pump() > 0; i++ {
		}
	}
	t.Pump()
	frames, rest, st := wsref.ParseAll(t.Written, -1)
	if st != wsref.OK || len(rest) != 0 {
		fail("wire-unparsable-after-violation", "bytes written by the client do not parse into whole frames")
		return
	}
	closes := 0
	for _, f := range frames {
		switch f.Opcode {
		case wsref.OpClose:
			closes++
			if !preClosed && (len(f.Payload) < 2 || int(f.Payload[0])<<8|int(f.Payload[1]) != 1002) {
				fail("close-code-not-1002", "Close frame after the violation carries payload %x", f.Payload)
				return
			}
		case wsref.OpText, wsref.OpBinary, wsref.OpCont:
			if queued > 0 && string(f.Payload) == "queued before the violation" {
				continue // accepted before the violation
			}
			fail("application-frame-written-after-framing-violation", "a data frame reached the wire after the violation (wire grew from %d to %d bytes)", before, len(t.Written))
			return
		}
	}
	if closes != 1 {
		fail("close-1002-not-queued", "%d Close frames were written after the violation (want exactly 1)", closes)
		return
	}
	c.Count("close_1002_seen", 1)
}

func runC15(c *vf.Case) {
	r := c.Rng
	maxSize := []int{64, 100, 200, 1000, 70000}[r.Intn(5)] // (control payloads of the conforming part stay <= 40)
	nm := r.Range(1, 6)
	var msgs []wsMsg
	for i := 0; i < nm; i++ {
		n := []int{0, 1, 5, 30, 126, 150}[r.Intn(6)]
		if n > maxSize {
			n = maxSize
		}
		msgs = append(msgs, wsMsg{Text: r.Bool(), Payload: asciiBytes(r, n)})
	}
	events, _ := wsFragment(r, msgs, 4, 40)
	for i := range events {
		// the library applies the configured maximum to every frame, control frames included: the conforming part of
		// the stream respects it
		if events[i].Control && len(events[i].F.Payload) > maxSize {
			events[i].F.Payload = events[i].F.Payload[:maxSize]
		}
	}
	k := r.Intn(len(events))
	e := &events[k]
	inProgress := false // is a message in progress just before frame k?
	for _, p := range events[:k] {
		if !p.Control {
			inProgress = !p.Last
		}
	}
	var mut c15Mutant
	var classes []string
	if e.Control {
		classes = []string{"rsv", "masked", "control-fin0", "control-126", "control-reserved-opcode"}
		if maxSize < 200 {
			// a control frame of 126-180 bytes would also be over the configured maximum: which of the two rejections
			// applies is not prescribed, so that mutation is only used where the maximum admits the frame
			classes = []string{"rsv", "masked", "control-fin0", "control-reserved-opcode"}
		}
	} else {
		classes = []string{"rsv", "masked", "data-reserved-opcode", "frame-over-max-16", "frame-over-max-64"}
		if maxSize < 125 {
			classes = append(classes, "frame-over-max-7", "frame-over-max-7") // over the maximum within the 7-bit length form
		}
		if inProgress {
			classes = append(classes, "data-opcode-mid-message", "message-over-max")
		} else {
			classes = append(classes, "continuation-first")
		}
	}
	cl := classes[r.Intn(len(classes))]
	mut.class = cl
	truncateAfter := -1
	switch cl {
	case "rsv":
		switch r.Intn(3) {
		case 0:
			e.F.Rsv1 = true
		case 1:
			e.F.Rsv2 = true
		default:
			e.F.Rsv3 = true
		}
		mut.framing = true
	case "masked":
		e.F.Masked = true
		copy(e.F.Key[:], r.Bytes(4))
		mut.framing = true
	case "control-fin0":
		e.F.Fin = false
		mut.framing = true
	case "control-126":
		e.F.Payload = r.Bytes(r.Range(126, 180))
		mut.framing = true
	case "control-reserved-opcode":
		e.F.Opcode = byte(r.Range(11, 15))
		mut.framing = true
	case "data-reserved-opcode":
		e.F.Opcode = byte(r.Range(3, 7))
		mut.framing = true
	case "continuation-first":
		e.F.Opcode = wsref.OpCont
		mut.msgOnly = true
	case "data-opcode-mid-message":
		e.F.Opcode = byte(r.Range(1, 2))
		mut.msgOnly = true
	case "frame-over-max-7":
		e.F.Payload = r.Bytes(r.Range(maxSize+1, 125))
		copy(e.F.Payload, c15Inside)
	case "frame-over-max-16":
		if maxSize >= 65535 {
			maxSize = 1000
		}
		e.F.Payload = r.Bytes(maxSize + 1 + r.Intn(50))
		copy(e.F.Payload, c15Inside)
	case "frame-over-max-64":
		d := uint64(maxSize) + 1 + uint64(r.Intn(1000))
		if d <= 65535 {
			d = 65536 + uint64(r.Intn(1000))
		}
		e.F.Declared = &d
		e.F.LenEnc = 64
		e.F.Payload = r.Bytes(r.Intn(20))
		truncateAfter = k
	case "message-over-max":
		// the fragments so far plus this one exceed the maximum although each frame is within it
		sofar := 0
		for _, p := range events[:k] {
			if !p.Control && p.MsgIdx == e.MsgIdx {
				sofar += len(p.F.Payload)
			}
		}
		need := maxSize - sofar + 1 + r.Intn(5)
		if need > maxSize || need < 0 {
			need = maxSize
			if sofar == 0 {
				cl = "frame-over-max-16"
				mut.class = cl
				need = maxSize + 1
			}
		}
		e.F.Payload = r.Bytes(need)
		mut.msgOnly = true
	}
	if truncateAfter >= 0 {
		events = events[:truncateAfter+1]
	}
	wire, bounds := wsWire(events)
	pos := "middle"
	switch {
	case k == 0:
		pos = "first"
	case k == len(events)-1:
		pos = "last"
	}
	if inProgress {
		pos += "/mid-message"
	}
	if k > 0 && events[k-1].Control {
		pos += "/after-control"
	}
	c.Logf("max=%d %d messages -> %d frames; mutant class=%s at frame %d (%s): %v", maxSize, len(msgs), len(events), mut.class, k, pos, events[k].F)
	for i, ev := range events {
		if i < 30 {
			c.Logf("  frame %d: %v msg=%d", i, ev.F, ev.MsgIdx)
		}
	}
	var cutSets [][]int
	cutSets = append(cutSets, nil)
	if len(wire) <= 250 {
		for cut := 1; cut < len(wire); cut++ {
			cutSets = append(cutSets, []int{cut})
		}
	} else {
		for i := 0; i < 4; i++ {
			cs := []int{r.Intn(len(wire)), r.Intn(len(wire))}
			sortInts(cs)
			cutSets = append(cutSets, cs)
		}
		start := 0
		if k > 0 {
			start = bounds[k-1]
		}
		cutSets = append(cutSets, []int{start + 1})
	}
	for _, cs := range cutSets {
		for _, api := range c06APIs {
			if c.Failed() {
				return
			}
			pre := r.Chance(1, 4)
			c15Run(c, msgs, events, k, mut, wire, cs, api, maxSize, r.Bool(), pre, fmt.Sprintf("cuts@%v", cs))
			if pre {
				c.Count("mutant_reads_after_local_close", 1)
			}
			c.Count("mutant_reads", 1)
		}
	}
	c.Cover("class_position", mut.class+" @ "+pos)
	c.NonTrivial(fmt.Sprintf("%s/%s/%d", mut.class, pos, len(cutSets)))
}

func init() {
	register(&vf.Check{
		ID:        "C15",
		Technique: "runtime monitor with single-violation mutants of wsref-generated conforming streams read through all four APIs on a scripted transport; the monitor knows position and class and checks error reporting, non-delivery, Close(1002) on the wire and refusal of writes",
		Rule: "over-maximum payloads begin with the bytes of a conforming text frame and the application reads once more after the rejection (no data may come back); in one async framing case in six the read is parked, the transport stalls and 129-400 writes are queued before the violating frame arrives (the Close 1002 still follows them), and in a third of those 1-6 writes are queued and the write the transport holds is cancelled (ErrCancelled) instead of completing: the Close 1002 still reaches the wire, once, with the next flush; " +
			"cases = conforming stream (1-6 messages, 1-4 fragments, ping/pong in between) with exactly one mutation from {RSV bit; masked server frame; control frame FIN=0; control frame with 126-180 payload bytes; reserved opcode 3-7 / 11-15; continuation with no message in progress; data opcode inside a fragmented message; frame over max (7-, 16- and 64-bit length encodings; max in {64,100,200,1000,70000}); fragments summing over max} at a random position x segmentation (every cut offset for streams <= 250 bytes, else random cuts plus one inside the mutant's header) x 4 read APIs x inline/deferred; " +
			"every case is non-trivial; distinct = (class, position kind, segmentation set size)",
		Assumptions: []string{
			"which error value is returned is not prescribed; only an error at the read that reaches the violating frame",
			"fragmentation-rule violations and message-size violations are only required of the message-level APIs",
			"Close(1002) + refusal of writes is required after framing-rule violations (reserved bits/opcodes, masked, control FIN=0, control > 125), as the statement says",
			"frames after the violating one are not inspected",
			"a quarter of the reads happen after the client's own Close (closed-by-us): the violation must still be reported; then exactly one Close (the client's own) may be on the wire",
		},
		NumCases:    func(tier, build string) int { return vf.Tiered(tier, 3000, 200000) },
		Floor:       func(tier string) int { return vf.Tiered(tier, 30, 60) },
		CaseTimeout: 60 * time.Second,
		Run:         runC15,
	})
}
