package checks

import (
	"bytes"
	"errors"
	"fmt"
	"time"

	"github.com/talostrading/sonic/codec/websocket"
	"github.com/talostrading/sonic/sonicerrors"

	"verif/internal/vf"
	"verif/internal/wsref"
	"verif/internal/xport"
)

// C06 - WebSocket message delivery fidelity under fragmentation / segmentation.
//
// Ground truth = the generated message list; frames are produced by wsref; the four read APIs are each
// compared with the ground truth on the same bytes under the same segmentation (hence with each other).

type c06Ctl struct {
	op      byte
	payload []byte
}

var c06APIs = []string{"NextFrame", "AsyncNextFrame", "NextMessage", "AsyncNextMessage"}

func c06Run(c *vf.Case, msgs []wsMsg, events []wsEvent, wire []byte, cuts []int, api string, maxSize int, deferReads bool, label string) {
	s, t := newWS(c)
	if s == nil {
		return
	}
	if c06Validate {
		s.ValidateUTF8(true)
	}
	s.SetMaxMessageSize(maxSize)
	t.DeferReads = deferReads
	var segs [][]byte
	prev := 0
	for _, cut := range append(append([]int(nil), cuts...), len(wire)) {
		if cut > prev {
			segs = append(segs, wire[prev:cut])
			prev = cut
		}
	}
	next := 0
	feed := func() bool {
		if next >= len(segs) {
			return false
		}
		t.Feed(segs[next])
		next++
		return true
	}
	var wantCtl []c06Ctl
	for _, e := range events {
		if e.Control {
			wantCtl = append(wantCtl, c06Ctl{e.F.Opcode, e.F.Payload})
		}
	}
	fail := func(key, format string, args ...any) {
		c.Failf(key, "%s %s: %s", api, label, fmt.Sprintf(format, args...))
	}
	// wait drives an asynchronous operation to completion by pumping deferred completions and feeding
	// the next segment whenever the transport has nothing left.
	wait := func(done *int) {
		for guard := 0; *done == 0 && guard < 1<<22; guard++ {
			if t.Pump() > 0 {
				continue
			}
			if c.Rng.Chance(1, 6) {
				// the read is parked on the transport: raising the limit now must not disturb it
				maxSize += c.Rng.Range(1, 200000)
				s.SetMaxMessageSize(maxSize)
				c.Count("limit_raised_while_a_read_was_parked", 1)
			}
			if !feed() {
				return
			}
		}
		t.Pump()
	}

	switch api {
	case "NextFrame", "AsyncNextFrame":
		async := api == "AsyncNextFrame"
		if !async {
			for feed() {
			}
		}
		for i, e := range events {
			var got websocket.Frame
			var err error
			if async {
				calls := 0
				s.AsyncNextFrame(func(er error, f websocket.Frame) {
					calls++
					err = er
					got = append(websocket.Frame(nil), f...)
				})
				if t.Pump() == 0 && calls == 0 && c.Rng.Chance(1, 5) {
					// the read is parked on the transport (possibly in the middle of this frame) and is cancelled; the
					// application reads again: the bytes received so far still count
					t.Cancel()
					t.Pump()
					if calls != 1 || err == nil {
						fail("cancelled-read-callback", "frame %d: the parked read was cancelled: callback invoked %d times, err=%v", i, calls, err)
						return
					}
					c.Count("parked_frame_reads_cancelled_and_reissued", 1)
					calls, err = 0, nil
					s.AsyncNextFrame(func(er error, f websocket.Frame) {
						calls++
						err = er
						got = append(websocket.Frame(nil), f...)
					})
				}
				wait(&calls)
				if calls != 1 {
					fail("frame-callback-count", "callback for frame %d invoked %d times after all bytes were supplied", i, calls)
					return
				}
			} else {
				var f websocket.Frame
				f, err = s.NextFrame()
				got = append(websocket.Frame(nil), f...)
			}
			if err != nil {
				fail("error-on-conforming-stream", "frame %d (%v): %v", i, e.F, err)
				return
			}
			if byte(got.Opcode()) != e.F.Opcode || got.IsFIN() != e.F.Fin || got.PayloadLength() != len(e.F.Payload) || !bytes.Equal(got.Payload(), e.F.Payload) {
				fail("frame-differs", "frame %d: got op=%d fin=%v len=%d, sent %v (payload equal: %v)", i, got.Opcode(), got.IsFIN(), got.PayloadLength(), e.F, bytes.Equal(got.Payload(), e.F.Payload))
				return
			}
			c.Count("frames_delivered", 1)
		}
	default:
		async := api == "AsyncNextMessage"
		var gotCtl []c06Ctl
		s.SetControlCallback(func(mt websocket.MessageType, payload []byte) {
			gotCtl = append(gotCtl, c06Ctl{byte(mt), append([]byte(nil), payload...)})
		})
		if !async {
			for feed() {
			}
		}
		if async && c.Rng.Chance(1, 3) {
			// every read is issued from inside the completion callback of the one before
			c.Count("message_runs_rearmed_from_inside_the_callback", 1)
			delivered, extra := 0, 0
			fkey, fmsg := "", ""
			var arm func(i int)
			arm = func(i int) {
				b := make([]byte, maxSize+16)
				s.AsyncNextMessage(b, func(er error, nn int, mt websocket.MessageType) {
					if fkey != "" {
						return
					}
					if i >= len(msgs) {
						extra++
						return
					}
					m := msgs[i]
					wantT := websocket.TypeBinary
					if m.Text {
						wantT = websocket.TypeText
					}
					switch {
					case er != nil:
						fkey, fmsg = "error-on-conforming-stream", fmt.Sprintf("message %d (%d bytes), read issued from inside the previous callback: %v", i, len(m.Payload), er)
					case mt != wantT:
						fkey, fmsg = "message-type-differs", fmt.Sprintf("message %d: type %v, sent %v (read issued from inside the previous callback)", i, mt, wantT)
					case nn != len(m.Payload):
						fkey, fmsg = "message-length-differs", fmt.Sprintf("message %d: reported length %d, payload has %d (read issued from inside the previous callback)", i, nn, len(m.Payload))
					case !bytes.Equal(b[:nn], m.Payload):
						fkey, fmsg = "message-payload-differs", fmt.Sprintf("message %d: payload differs at %d of %d (read issued from inside the previous callback)", i, firstDiff(b[:nn], m.Payload), nn)
					}
					if fkey != "" {
						return
					}
					delivered++
					c.Count("messages_delivered", 1)
					arm(i + 1)
				})
			}
			arm(0)
			for guard := 0; fkey == "" && guard < 1<<22; guard++ {
				if t.Pump() > 0 {
					continue
				}
				if !feed() {
					break
				}
			}
			t.Pump()
			if fkey != "" {
				fail(fkey, "%s", fmsg)
				return
			}
			if delivered != len(msgs) {
				fail("message-callback-count", "%d of %d messages delivered after all bytes were supplied (reads issued from inside the callbacks)", delivered, len(msgs))
				return
			}
			if extra != 0 {
				fail("extra-message", "an extra message was delivered after the %d sent", len(msgs))
				return
			}
			if len(gotCtl) != len(wantCtl) {
				fail("control-callback-count", "%d control frames surfaced, %d sent (reads issued from inside the callbacks)", len(gotCtl), len(wantCtl))
			}
			return
		}
		buf := make([]byte, maxSize+16)
		for i, m := range msgs {
			for j := range buf {
				buf[j] = 0xEE
			}
			var mt websocket.MessageType
			var n int
			var err error
			if async {
				calls := 0
				s.AsyncNextMessage(buf, func(er error, nn int, t websocket.MessageType) { calls++; err, n, mt = er, nn, t })
				wait(&calls)
				if calls != 1 {
					fail("message-callback-count", "callback for message %d invoked %d times after all bytes were supplied", i, calls)
					return
				}
			} else {
				mt, n, err = s.NextMessage(buf)
			}
			if err != nil {
				fail("error-on-conforming-stream", "message %d (%d bytes): %v", i, len(m.Payload), err)
				return
			}
			wantT := websocket.TypeBinary
			if m.Text {
				wantT = websocket.TypeText
			}
			if mt != wantT {
				fail("message-type-differs", "message %d: type %v, sent %v", i, mt, wantT)
				return
			}
			if n != len(m.Payload) {
				fail("message-length-differs", "message %d: reported length %d, payload has %d", i, n, len(m.Payload))
				return
			}
			if !bytes.Equal(buf[:n], m.Payload) {
				fail("message-payload-differs", "message %d: payload differs at %d of %d", i, firstDiff(buf[:n], m.Payload), n)
				return
			}
			c.Count("messages_delivered", 1)
		}
		// trailing control frames are surfaced by one more read
		if async {
			calls := 0
			s.AsyncNextMessage(buf, func(error, int, websocket.MessageType) { calls++ })
			wait(&calls)
			if calls != 0 {
				fail("extra-message", "an extra message was delivered after the %d sent", len(msgs))
			}
		} else {
			if _, _, err := s.NextMessage(buf); err == nil {
				fail("extra-message", "an extra message was delivered after the %d sent", len(msgs))
			} else if !errors.Is(err, sonicerrors.ErrWouldBlock) {
				fail("error-on-conforming-stream", "read after the last message: %v", err)
			}
		}
		if len(gotCtl) != len(wantCtl) {
			fail("control-callback-count", "control callback invoked %d times, %d control frames were sent", len(gotCtl), len(wantCtl))
			return
		}
		for i := range wantCtl {
			if gotCtl[i].op != wantCtl[i].op || !bytes.Equal(gotCtl[i].payload, wantCtl[i].payload) {
				fail("control-callback-differs", "control callback %d: op %d / %d bytes, sent op %d / %d bytes", i, gotCtl[i].op, len(gotCtl[i].payload), wantCtl[i].op, len(wantCtl[i].payload))
				return
			}
		}
		c.Count("control_callbacks", len(gotCtl))
	}
	_ = xport.ErrInjected
}

// c06Validate: the stream of the current case validates the payloads of text frames (ValidateUTF8(true)); the peer's
// text messages then contain multi-byte characters, which its fragmentation may split anywhere (RFC 6455 5.4).
var c06Validate bool

// utf8Bytes returns exactly n bytes of valid UTF-8 with characters of one to four bytes.
func utf8Bytes(r *vf.Rand, n int) []byte {
	runes := []string{"a", "z", "\u00e9", "\u00df", "\u20ac", "\u4e16", "\U0001f600", "\U00010348"}
	out := make([]byte, 0, n)
	for len(out) < n {
		s := runes[r.Intn(len(runes))]
		if len(out)+len(s) > n {
			s = "x"
		}
		out = append(out, s...)
	}
	return out
}

func runC06(c *vf.Case) {
	r := c.Rng
	c06Validate = r.Chance(1, 3)
	if c06Validate {
		c.Count("streams_read_with_utf8_validation_on", 1)
	}
	maxSize := []int{1000, 70000, 70000, websocket.DefaultMaxMessageSize}[r.Intn(4)]
	if maxSize > 70000 && !r.Chance(1, 6) {
		maxSize = 1000
	}
	nm := r.Range(1, 12)
	small := r.Chance(1, 2) // small streams get the systematic every-offset treatment
	var msgs []wsMsg
	total := 0
	for i := 0; i < nm; i++ {
		var n int
		if small {
			n = []int{0, 1, 2, 5, 30}[r.Intn(5)]
		} else {
			classes := []int{0, 1, 125, 126, 127, 500, 4090 + r.Intn(10)} // incl. sizes around the initial 4096-byte read buffer
			if maxSize >= 70000 {
				classes = append(classes, 65535, 65536)
			}
			classes = append(classes, maxSize, r.Intn(maxSize+1))
			n = classes[r.Intn(len(classes))]
			if n > maxSize {
				n = maxSize
			}
			if total+n > 400000 {
				n = r.Intn(200)
			}
		}
		total += n
		m := wsMsg{Text: r.Bool()}
		if m.Text && c06Validate {
			m.Payload = utf8Bytes(r, n)
		} else if m.Text {
			m.Payload = asciiBytes(r, n)
		} else {
			m.Payload = r.Bytes(n)
		}
		msgs = append(msgs, m)
		if small && total > 120 {
			break
		}
	}
	events, ctrlBetween := wsFragment(r, msgs, 6, 35)
	if r.Chance(1, 8) && maxSize >= 4096 {
		// a frame that fills the 4096-byte read buffer of a fresh stream to its last byte (4-byte header + 4092 payload
		// bytes), unfragmented, between small messages: with the frame-boundary segmentation it arrives alone
		msgs = nil
		for i := 0; i < r.Intn(3); i++ {
			msgs = append(msgs, wsMsg{Text: true, Payload: asciiBytes(r, r.Intn(30))})
		}
		msgs = append(msgs, wsMsg{Text: r.Bool(), Payload: asciiBytes(r, 4092)})
		for i := 0; i < r.Range(1, 2); i++ {
			msgs = append(msgs, wsMsg{Text: true, Payload: asciiBytes(r, r.Intn(30))})
		}
		events, ctrlBetween = wsFragment(r, msgs, 1, 0)
		c.Count("streams_with_a_frame_that_fills_the_read_buffer_exactly", 1)
	}
	wire, bounds := wsWire(events)
	frags := 0
	lens := map[string]bool{}
	for _, e := range events {
		if !e.Control {
			frags++
		}
		lens[lenClass(uint64(len(e.F.Payload)), int64(maxSize))] = true
	}
	c.Logf("%d messages %v -> %d frames (%d control between fragments), %d wire bytes, max=%d", len(msgs), sizesOfMsgs(msgs), len(events), ctrlBetween, len(wire), maxSize)
	for i, e := range events {
		if i < 40 {
			c.Logf("  frame %d: %v msg=%d", i, e.F, e.MsgIdx)
		}
	}
	cutInHeader := false
	segClass := ""
	if len(wire) <= 400 {
		segClass = "every-offset"
		for cut := 1; cut < len(wire) && !c.Failed(); cut++ {
			cc := cutClass(events, bounds, cut)
			c.Cover("cut_class", cc)
			if cc == "in-first-header-byte" || cc == "in-extended-length" {
				cutInHeader = true
			}
			for _, api := range c06APIs {
				c06Run(c, msgs, events, wire, []int{cut}, api, maxSize, r.Bool(), fmt.Sprintf("cut@%d(%s)", cut, cc))
				c.Count("streams_read", 1)
			}
		}
	} else {
		segClass = "random-cuts"
		var cuts []int
		for i := 0; i < r.Range(1, 3); i++ {
			cuts = append(cuts, r.Intn(len(wire)))
		}
		// one cut inside a header
		fi := r.Intn(len(bounds))
		start := 0
		if fi > 0 {
			start = bounds[fi-1]
		}
		cuts = append(cuts, start+1)
		cutInHeader = true
		sortInts(cuts)
		for _, cut := range cuts {
			c.Cover("cut_class", cutClass(events, bounds, cut))
		}
		for _, api := range c06APIs {
			c06Run(c, msgs, events, wire, cuts, api, maxSize, r.Bool(), fmt.Sprintf("cuts@%v", cuts))
			c.Count("streams_read", 1)
		}
	}
	if !c.Failed() {
		for _, api := range c06APIs {
			c06Run(c, msgs, events, wire, nil, api, maxSize, r.Bool(), "coalesced")
			c.Count("streams_read", 1)
		}
	}
	if !c.Failed() && len(bounds) > 1 {
		// every frame arrives in a transport read of its own (cuts exactly at the frame boundaries): a frame can then fill
		// the read buffer to its last byte with nothing behind it
		fb := append([]int(nil), bounds[:len(bounds)-1]...)
		for _, api := range c06APIs {
			c06Run(c, msgs, events, wire, fb, api, maxSize, r.Bool(), "cut-at-every-frame-boundary")
			c.Count("streams_read", 1)
		}
		segClass += "+frame-boundaries"
	}
	if !c.Failed() && len(wire) <= 3000 && r.Chance(1, 2) {
		cuts := make([]int, 0, len(wire))
		for i := 1; i < len(wire); i++ {
			cuts = append(cuts, i)
		}
		for _, api := range c06APIs {
			c06Run(c, msgs, events, wire, cuts, api, maxSize, r.Bool(), "byte-at-a-time")
			c.Count("streams_read", 1)
		}
		segClass += "+byte-at-a-time"
	}
	c.Count("messages_generated", len(msgs))
	c.Count("fragments_generated", frags)
	c.Count("control_between_fragments", ctrlBetween)
	for k := range lens {
		c.Cover("frame_length_class", k)
	}
	if ctrlBetween > 0 || cutInHeader {
		c.NonTrivial(fmt.Sprintf("%v/%d/%d/%s/%d", vf.SortedKeys(lens), frags, ctrlBetween, segClass, maxSize))
	}
}

func sizesOfMsgs(ms []wsMsg) []int {
	out := make([]int, len(ms))
	for i, m := range ms {
		out[i] = len(m.Payload)
	}
	return out
}

var _ = wsref.OK

func init() {
	register(&vf.Check{
		ID:        "C06",
		Technique: "differential runtime monitor: a real Stream on a scripted transport (hook VerifAttach) reads wsref-generated fragmented/interleaved/segmented streams through all four read APIs; every delivery compared with the generated message list",
		Rule: "a third of the cases read with ValidateUTF8(true) and carry text of 1-4 byte characters that the fragmentation splits anywhere; " +
			"cases = 1-12 messages (text/binary, sizes {0,1,125,126,127,500,4090-4099,65535,65536,max,random<=max}) x random fragmentation (1-6 fragments, empty ones included) x ping/pong (0-125 bytes) between fragments x segmentation (EVERY cut offset for streams <= 400 bytes, else 1-3 random cuts plus one inside a header; coalesced; cut at every frame boundary; byte-at-a-time) x {NextFrame, AsyncNextFrame, NextMessage, AsyncNextMessage} x inline/deferred transport completions; SetMaxMessageSize raised at random points while an asynchronous read is parked; a third of the AsyncNextMessage runs issue every read from inside the completion callback of the one before; one parked AsyncNextFrame in five is cancelled (ErrCancelled) and issued again, the bytes received so far still counting; " +
			"non-trivial = a control frame between fragments or a cut inside a frame header; distinct = (frame length classes, fragments, controls between fragments, segmentation class, max)",
		Assumptions: []string{
			"text payloads are ASCII (UTF-8 validation is optional and off by default)",
			"the message buffer is always large enough (too-small buffers belong to C15)",
			"Close frames and protocol violations are not part of conforming streams here (C08, C15)",
			"the sampled real-socket variant is covered by C17/C18's socket workloads",
		},
		NumCases:    func(tier, build string) int { return vf.Tiered(tier, 1200, 30000) },
		Floor:       func(tier string) int { return vf.Tiered(tier, 100, 2000) },
		CaseTimeout: 60 * time.Second,
		Run:         runC06,
	})
}
