package checks

import (
	"bytes"
	"fmt"
	"math"
	"strings"
	"time"

	"github.com/talostrading/sonic"

	"verif/internal/vf"
)

// C20 - out-of-order slot retrieval addresses exactly the bytes saved.
//
// Oracle: model map seq -> bytes (generated content) + arrival order, compared with
// SavedSlot(Pop(seq)) before every Discard, with Saved() after every Discard, and with Bytes()/Size()
// after every call.

type c20Packet struct {
	seq  int
	data []byte
	slot sonic.Slot // only used in offsetter-alone mode (the slot returned by Add)
}

func runC20(c *vf.Case) {
	r := c.Rng
	maxSlots := []int{1, 4, 64}[r.Intn(3)]
	maxBytes := []int{16, 100, 256, 1000, 1500, 65536}[r.Intn(6)] // powers of two and others
	offsetterOnly := r.Chance(1, 5)
	neverEmpty := r.Bool()
	long := r.Chance(1, 80)
	if long {
		maxSlots, maxBytes, neverEmpty = 64, 65536, true
	}
	b := sonic.NewByteBuffer()
	var seqr *sonic.SlotSequencer
	var offs *sonic.SlotOffsetter
	if offsetterOnly {
		offs = sonic.NewSlotOffsetter(maxBytes)
		c.Logf("NewSlotOffsetter(%d) neverEmpty=%v", maxBytes, neverEmpty)
	} else {
		seqr = sonic.NewSlotSequencer(maxSlots, maxBytes)
		c.Logf("NewSlotSequencer(maxSlots=%d, maxBytes=%d) neverEmpty=%v", maxSlots, maxBytes, neverEmpty)
	}
	gen := r.U64()
	genOff := 0
	var read []byte        // model of the read area
	var parked []c20Packet // arrival order
	parkedBytes := 0
	discardedSinceReset := 0 // bytes discarded through the offsetter since it was last reset
	nextSeq := 100
	outOfOrderPops, dups, longestNeverEmpty, run := 0, 0, 0, 0
	resets, overAsks, extremes, reserveGrowths := 0, 0, 0, 0
	capErrs := map[string]int{}
	rangeErrsInARow := 0
	var shape strings.Builder

	savedConcat := func() []byte {
		var out []byte
		for _, p := range parked {
			out = append(out, p.data...)
		}
		return out
	}
	checkTotals := func(op string) {
		if got := b.Saved(); !bytes.Equal(got, savedConcat()) {
			c.Failf("saved-area-differs-after-"+op, "after %s: Saved() (%d bytes) is not the concatenation of the %d parked packets in arrival order (%d bytes), first diff at %d",
				op, len(got), len(parked), parkedBytes, firstDiff(got, savedConcat()))
		}
		if got := b.Data(); !bytes.Equal(got, read) {
			c.Failf("read-area-differs-after-"+op, "after %s: Data() differs from the model's read area", op)
		}
		if seqr != nil {
			if seqr.Bytes() != parkedBytes || seqr.Size() != len(parked) {
				c.Failf("totals-after-"+op, "after %s: Bytes()=%d Size()=%d, parked totals are %d bytes in %d packets", op, seqr.Bytes(), seqr.Size(), parkedBytes, len(parked))
			}
		}
		c.Count("state_comparisons", 1)
	}

	steps := r.Range(50, 2000)
	if c.Tier == "quick" {
		steps = r.Range(50, 600)
	}
	if long {
		steps = 14000 // more than a thousand out-of-order pops between two drains, then the index is drained and used again
		c.Count("long_never_empty_histories", 1)
	}
	for step := 0; step < steps && !c.Failed(); step++ {
		op := r.Intn(10)
		if neverEmpty && len(parked) <= 1 && op >= 5 && op <= 8 {
			op = 2
		}
		if len(parked) > 0 && ((!neverEmpty && r.Chance(1, 25)) || rangeErrsInARow >= 8) {
			rangeErrsInARow = 0
			// drain to empty
			for len(parked) > 0 && !c.Failed() {
				c20Pop(c, r, b, seqr, offs, &parked, &parkedBytes, &discardedSinceReset, &outOfOrderPops, r.Intn(len(parked)))
				checkTotals("drain")
			}
			if offs != nil {
				offs.Reset()
				discardedSinceReset = 0
			} else {
				discardedSinceReset = 0 // the sequencer resets its offsetter when it empties
			}
			shape.WriteString("D")
			continue
		}
		if len(parked) > 0 && !long && r.Chance(1, 40) {
			// the owner gives up on what is parked: Reset of the index plus DiscardAll of the save area, in the
			// middle of a history (slots popped out of order since the last drain); what follows starts from scratch
			c.Logf("Reset() + DiscardAll() with %d packets (%d bytes) parked, %d bytes discarded since the last drain", len(parked), parkedBytes, discardedSinceReset)
			if seqr != nil {
				seqr.Reset()
			} else {
				offs.Reset()
			}
			b.DiscardAll()
			parked, parkedBytes, discardedSinceReset = nil, 0, 0
			resets++
			shape.WriteString("R")
			checkTotals("reset")
			continue
		}
		switch {
		case op <= 1: // bytes arrive
			k := r.Intn(80)
			data := make([]byte, k)
			vf.GenFill(data, gen, genOff)
			genOff += k
			how := r.Intn(4)
			switch how {
			case 0:
				_, _ = b.Write(data)
			default:
				// a receive loop that reserves room for a whole datagram before every read, with packets parked
				room := k + []int{0, 1, 64, 1500, 9000, 65536}[r.Intn(6)]
				grows := room > b.Reserved()
				b.Reserve(room)
				if grows {
					reserveGrowths++
				}
				if got := b.Reserved(); got < room {
					c.Failf("reserve-too-small", "Reserved()=%d after Reserve(%d)", got, room)
				}
				switch how {
				case 1:
					copy(b.ClaimFixed(k), data)
				case 2:
					b.Claim(func(dst []byte) int { return copy(dst, data) })
				case 3:
					if k > 0 {
						if n, err := b.ReadFrom(bytes.NewReader(data)); n != int64(k) || err != nil {
							c.Failf("readfrom-short", "ReadFrom of %d bytes into %d reserved -> %d, %v", k, room, n, err)
						}
					}
				}
			}
			b.Commit(k)
			read = append(read, data...)
			c.Logf("arrive %d bytes (how=%d)", k, how)
			checkTotals("arrive")
		case op <= 4: // park a packet
			n := r.Intn(65)
			if r.Chance(5, 6) {
				n = r.Intn(min(65, maxBytes/3+2))
			}
			if r.Chance(1, 12) {
				n = 0
			}
			if n > len(read) {
				k := n - len(read) + r.Intn(8)
				data := make([]byte, k)
				vf.GenFill(data, gen, genOff)
				genOff += k
				_, _ = b.Write(data)
				b.Commit(k)
				read = append(read, data...)
			}
			var seq int
			dup := false
			switch {
			case len(parked) > 0 && r.Chance(1, 6):
				seq = parked[r.Intn(len(parked))].seq
				dup = true
			case r.Chance(1, 14):
				// sequence numbers at the ends of the int range (an all-ones "no sequence" marker, wire numbers past
				// 2^63 converted to int): any two ints are ordered, however far apart
				seq = []int{math.MaxInt64, math.MinInt64, -1, 0, math.MaxInt64 - 1, math.MinInt64 + 1, -nextSeq}[r.Intn(7)]
				extremes++
			case r.Chance(1, 2):
				seq = nextSeq + r.Intn(50) - 25 // out of order arrivals
			default:
				seq = nextSeq
			}
			nextSeq++
			for _, p := range parked {
				if p.seq == seq {
					dup = true
				}
			}
			rawIndex := len(savedConcat())
			ask := n
			if r.Chance(1, 10) && len(read) <= 80 {
				// a truncated trailing packet: more is asked for than is readable; what is saved (and what the slot
				// addresses) is what was there
				n = len(read)
				ask = n + r.Range(1, 40)
				overAsks++
			}
			slot := b.Save(ask)
			pkt := append([]byte(nil), read[:n]...)
			read = read[n:]
			if n > 0 && (slot.Length != n || slot.Index != rawIndex) {
				c.Failf("save-slot", "Save(%d) with %d readable bytes returned %+v, expected index %d length %d", ask, n, slot, rawIndex, n)
				return
			}
			virtual := rawIndex + discardedSinceReset
			if n == 0 {
				virtual = discardedSinceReset // Save(0) returns the zero Slot
			}
			if offsetterOnly {
				vs, err := offs.Add(slot)
				c.Logf("Save(%d) -> %+v; Add -> %+v err=%v", n, slot, vs, err)
				if err != nil {
					if virtual < maxBytes {
						c.Failf("offsetter-spurious-capacity-error", "Add(%+v) failed with %v although the virtual index %d is below the range %d", slot, err, virtual, maxBytes)
					}
					capErrs["offsetter-range"]++
					rangeErrsInARow++
					b.Discard(slot) // newest saved slot: shifts nothing
				} else {
					if virtual >= maxBytes {
						c.Failf("offsetter-range-not-reported", "Add(%+v) succeeded although the virtual index %d is beyond the range %d", slot, virtual, maxBytes)
					}
					parked = append(parked, c20Packet{seq: seq, data: pkt, slot: vs})
					parkedBytes += n
				}
				shape.WriteString("P")
				checkTotals("park")
				break
			}
			ok, err := seqr.Push(seq, slot)
			c.Logf("Save(%d) -> %+v; Push(seq=%d dup=%v) -> ok=%v err=%v [parked=%d/%d bytes=%d/%d virtual=%d]", n, slot, seq, dup, ok, err, len(parked), maxSlots, parkedBytes, maxBytes, virtual)
			overBytes := parkedBytes+n > maxBytes
			overSlots := len(parked) >= maxSlots
			overRange := virtual >= maxBytes
			switch {
			case err != nil:
				if ok {
					c.Failf("push-error-and-ok", "Push returned ok=true with error %v", err)
				}
				if !overBytes && !overRange && !(overSlots && !dup) {
					c.Failf("push-spurious-capacity-error", "Push(seq=%d, %d bytes) failed with %v although no capacity is exceeded (parked %d/%d slots, %d/%d bytes, virtual index %d)", seq, n, err, len(parked), maxSlots, parkedBytes, maxBytes, virtual)
				}
				switch {
				case overBytes:
					capErrs["bytes"]++
				case overRange:
					capErrs["offsetter-range"]++
					rangeErrsInARow++
				default:
					capErrs["slots"]++
				}
				b.Discard(slot)
			case !ok:
				if !dup {
					c.Failf("push-rejected-new-sequence-number", "Push(seq=%d) returned ok=false, err=nil for a sequence number that is not parked", seq)
				}
				dups++
				b.Discard(slot)
			default:
				if dup {
					c.Failf("duplicate-accepted", "Push(seq=%d) returned ok=true for a sequence number that is already parked", seq)
				}
				if overBytes || overSlots {
					c.Failf("capacity-exceeded-without-error", "Push(seq=%d, %d bytes) accepted beyond capacity (parked %d/%d slots, %d/%d bytes)", seq, n, len(parked), maxSlots, parkedBytes, maxBytes)
				}
				parked = append(parked, c20Packet{seq: seq, data: pkt})
				parkedBytes += n
			}
			shape.WriteString("P")
			checkTotals("push")
		case op <= 8: // pop in random order
			if len(parked) == 0 {
				if seqr != nil {
					if s, ok := seqr.Pop(nextSeq + 1000); ok {
						c.Failf("pop-unknown-ok", "Pop of a sequence number that is not parked returned %+v, true", s)
					}
				}
				break
			}
			i := r.Intn(len(parked))
			if r.Chance(1, 4) {
				i = len(parked) - 1
			}
			c20Pop(c, r, b, seqr, offs, &parked, &parkedBytes, &discardedSinceReset, &outOfOrderPops, i)
			if len(parked) == 0 {
				if offs != nil {
					offs.Reset()
				}
				discardedSinceReset = 0
			}
			shape.WriteString("O")
			checkTotals("pop")
		default:
			if seqr != nil && r.Bool() {
				unknown := nextSeq + 500 + r.Intn(100)
				if s, ok := seqr.Pop(unknown); ok {
					c.Failf("pop-unknown-ok", "Pop(%d) of a sequence number that is not parked returned %+v, true", unknown, s)
				}
				checkTotals("pop-unknown")
			} else {
				k := r.Intn(len(read) + 1)
				b.Consume(k)
				read = read[k:]
				c.Logf("Consume(%d)", k)
				checkTotals("consume")
			}
		}
		if len(parked) > 0 {
			run++
			if run > longestNeverEmpty {
				longestNeverEmpty = run
			}
		} else {
			run = 0
		}
		c.Count("operations", 1)
	}
	c.Count("out_of_order_pops", outOfOrderPops)
	c.Count("resets_with_packets_parked", resets)
	c.Count("saves_asking_for_more_than_is_readable", overAsks)
	c.Count("sequence_numbers_at_the_ends_of_the_int_range", extremes)
	c.Count("growing_reserves_between_arrivals", reserveGrowths)
	c.Count("duplicate_pushes", dups)
	for k, v := range capErrs {
		c.Count("capacity_errors_"+k, v)
	}
	c.Max("longest_never_empty_run", int64(longestNeverEmpty))
	mode := "sequencer"
	if offsetterOnly {
		mode = "offsetter"
	}
	c.Cover("configurations", fmt.Sprintf("%s slots=%d bytes=%d neverEmpty=%v", mode, maxSlots, maxBytes, neverEmpty))
	if outOfOrderPops > 0 {
		c.NonTrivial(fmt.Sprintf("%s/%d/%d/%x", mode, maxSlots, maxBytes, vf.HashString(shape.String())))
	}
}

func c20Pop(c *vf.Case, r *vf.Rand, b *sonic.ByteBuffer, seqr *sonic.SlotSequencer, offs *sonic.SlotOffsetter,
	parked *[]c20Packet, parkedBytes, discardedSinceReset, outOfOrder *int, i int) {
	p := (*parked)[i]
	var slot sonic.Slot
	if seqr != nil {
		var ok bool
		slot, ok = seqr.Pop(p.seq)
		if !ok {
			c.Failf("pop-parked-not-found", "Pop(%d) returned false for a parked sequence number", p.seq)
			return
		}
	} else {
		slot = offs.Offset(p.slot)
	}
	c.Logf("Pop(seq=%d) -> %+v (arrival position %d of %d)", p.seq, slot, i, len(*parked))
	if i != 0 {
		*outOfOrder++
	}
	if slot.Length != len(p.data) {
		c.Failf("popped-slot-length", "slot for seq %d has length %d, %d bytes were saved under it", p.seq, slot.Length, len(p.data))
		return
	}
	if slot.Length > 0 {
		if slot.Index < 0 || slot.Index+slot.Length > b.SaveLen() {
			c.Failf("popped-slot-outside-save-area", "slot %+v for seq %d lies outside the save area of %d bytes", slot, p.seq, b.SaveLen())
			return
		}
		if got := b.SavedSlot(slot); !bytes.Equal(got, p.data) {
			c.Failf("popped-slot-addresses-wrong-bytes", "SavedSlot(%+v) for seq %d is not the bytes saved under that number", slot, p.seq)
			return
		}
	}
	if d := b.Discard(slot); d != slot.Length && !(slot.Length <= 0 && d == 0) {
		c.Failf("discard-return", "Discard(%+v) returned %d", slot, d)
	}
	*parked = append((*parked)[:i:i], (*parked)[i+1:]...)
	*parkedBytes -= len(p.data)
	*discardedSinceReset += len(p.data)
}

func init() {
	register(&vf.Check{
		ID:        "C20",
		Technique: "reference-model monitor (map sequence-number -> bytes + arrival order) over random push/pop/discard histories of SlotSequencer/SlotOffsetter on a real ByteBuffer; content compared before and after every Discard; checkptr build",
		Rule: "one sequence number in 14 is at an end of the int range; arrivals also come through Reserve + ClaimFixed / Claim / ReadFrom with growing reserves; one history in 80 is a never-empty run of 14000 steps without forced resets; " +
			"cases = random histories (50-2000 steps) interleaving arrivals, Save+Push (in-order, out-of-order and duplicate sequence numbers, sizes 0-64) with Pop+Discard in random order, for maxSlots in {1,4,64} x maxBytes in {16,256,65536}, in a drain-to-empty regime and a never-empty regime (offsetter range limit reached), SlotSequencer and SlotOffsetter alone; " +
			"non-trivial = at least one pop that was not the oldest parked packet; distinct = (mode, capacities, push/pop shape)",
		Assumptions: []string{
			"a packet whose Push/Add is rejected is discarded by the caller as the newest saved slot (which shifts nothing)",
			"the popped slot is discarded before the next Pop, as documented",
			"a rejection is only flagged as spurious when none of the three limits (slots, bytes, offsetter index range = maxBytes) is reached in the model",
		},
		Builds:      func(string) []string { return []string{"checkptr"} },
		NumCases:    func(tier, build string) int { return vf.Tiered(tier, 10000, 900000) },
		Floor:       func(tier string) int { return vf.Tiered(tier, 500, 20000) },
		CaseTimeout: 30 * time.Second,
		Run:         runC20,
	})
}
