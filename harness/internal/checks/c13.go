package checks

import (
	"errors"
	"fmt"
	"net"
	"net/netip"
	"os"
	"path/filepath"
	"runtime"
	"strings"
	"syscall"
	"time"

	"github.com/talostrading/sonic"
	sbytes "github.com/talostrading/sonic/bytes"
	"github.com/talostrading/sonic/codec/websocket"
	"github.com/talostrading/sonic/multicast"
	"github.com/talostrading/sonic/sonicerrors"
	"github.com/talostrading/sonic/sonicopts"
	"golang.org/x/sys/unix"

	"verif/internal/rawpeer"
	"verif/internal/vf"
)

// C13 - no descriptor leaks, no foreign close, owners of in-flight operations stay alive.
//
// Oracles: the /proc/self/fd census (number -> link target) taken before and after, WITHOUT running the
// garbage collector (finalizers cannot hide a leak); fcntl(F_GETFD) on other objects' descriptors; a
// finalizer on a sentinel captured by the pending callback.

// c13LivePort is a raw listener that accepts (and the harness immediately closes) whatever connects;
// c13Accepter is a sonic listener with raw clients waiting in its backlog.
var (
	c13LivePort int
	c13Accepter sonic.Listener
)

type c13Ctor struct {
	name string
	// make runs the constructor; on success it returns a closer that releases everything it created
	make func(ioc *sonic.IO) (closer func(), err error)
}

func c13Ctors() []c13Ctor {
	return []c13Ctor{
		{"NewIO", func(_ *sonic.IO) (func(), error) {
			i, err := sonic.NewIO()
			if err != nil {
				return nil, err
			}
			return func() { _ = i.Close() }, nil
		}},
		{"NewTimer", func(ioc *sonic.IO) (func(), error) {
			t, err := sonic.NewTimer(ioc)
			if err != nil {
				return nil, err
			}
			return func() { _ = t.Close() }, nil
		}},
		{"Listen", func(ioc *sonic.IO) (func(), error) {
			l, err := sonic.Listen(ioc, "tcp", "127.0.0.1:0", sonicopts.Nonblocking(true))
			if err != nil {
				return nil, err
			}
			return func() { _ = l.Close() }, nil
		}},
		{"NewPacketConn", func(ioc *sonic.IO) (func(), error) {
			p, err := sonic.NewPacketConn(ioc, "udp", "127.0.0.1:0")
			if err != nil {
				return nil, err
			}
			return func() { _ = p.Close() }, nil
		}},
		{"NewUDPPeer", func(ioc *sonic.IO) (func(), error) {
			p, err := multicast.NewUDPPeer(ioc, "udp", "127.0.0.1:0")
			if err != nil {
				return nil, err
			}
			return func() { _ = p.Close() }, nil
		}},
		{"Open", func(ioc *sonic.IO) (func(), error) {
			f, err := sonic.Open(ioc, "/proc/self/status", syscall.O_RDONLY, 0)
			if err != nil {
				return nil, err
			}
			return func() { _ = f.Close() }, nil
		}},
		{"Dial-tcp", func(ioc *sonic.IO) (func(), error) {
			cn, err := sonic.Dial(ioc, "tcp", rawpeer.AddrOf(c13LivePort))
			if err != nil {
				return nil, err
			}
			return func() { _ = cn.Close() }, nil
		}},
		{"Accept", func(ioc *sonic.IO) (func(), error) {
			// one connection is waiting in the backlog of c13Accepter
			cn, err := c13Accepter.Accept()
			if err != nil {
				return nil, err
			}
			return func() { _ = cn.Close() }, nil
		}},
		{"NewMirroredBuffer", func(_ *sonic.IO) (func(), error) {
			b, err := sbytes.NewMirroredBuffer(4096, false)
			if err != nil {
				return nil, err
			}
			return func() { _ = b.Destroy() }, nil
		}},
	}
}

func censusDiff(c *vf.Case, key, what string, before rawpeer.Census) bool {
	after := rawpeer.TakeCensus()
	opened, closed := before.Diff(after)
	c.Count("census_comparisons", 1)
	if len(opened) > 0 {
		c.Failf("descriptor-leak/"+key, "%s: descriptors left open that were not there before: %v", what, opened)
		return false
	}
	if len(closed) > 0 {
		c.Failf("foreign-descriptor-closed/"+key, "%s: descriptors that were open before are gone: %v", what, closed)
		return false
	}
	return true
}

// packTable fills the holes of the descriptor table so that exactly k more descriptors can be allocated
// once the soft limit is lowered to highest+1+k. It returns the plugs and the highest descriptor.
func packTable() (plugs []int, highest int) {
	cen := rawpeer.TakeCensus()
	for fd := range cen {
		if fd > highest {
			highest = fd
		}
	}
	for i := 0; i < 4096; i++ {
		fd, err := syscall.Open("/dev/null", syscall.O_RDONLY|syscall.O_CLOEXEC, 0)
		if err != nil {
			break
		}
		if fd > highest {
			syscall.Close(fd)
			break
		}
		plugs = append(plugs, fd)
	}
	return plugs, highest
}

func withLimit(limit int, fn func()) {
	var old syscall.Rlimit
	_ = syscall.Getrlimit(syscall.RLIMIT_NOFILE, &old)
	_ = syscall.Setrlimit(syscall.RLIMIT_NOFILE, &syscall.Rlimit{Cur: uint64(limit), Max: old.Max})
	fn()
	_ = syscall.Setrlimit(syscall.RLIMIT_NOFILE, &old)
}

// c13Exhaustion: descriptor-table exhaustion at the k-th allocation, for every k until the constructor
// succeeds.
func c13Exhaustion(c *vf.Case, ioc *sonic.IO, ct c13Ctor) {
	// warm-up: the first successful use may make the Go runtime open descriptors of its own
	if cl, err := ct.make(ioc); err == nil {
		cl()
	}
	for k := 0; k < 12 && !c.Failed(); k++ {
		plugs, highest := packTable()
		before := rawpeer.TakeCensus()
		var cl func()
		var err error
		withLimit(highest+1+k, func() { cl, err = ct.make(ioc) })
		c.Logf("%s with room for %d more descriptors -> err=%v", ct.name, k, err)
		c.Cover("constructor_x_failure", fmt.Sprintf("%s / fd-table exhausted at allocation %d", ct.name, k+1))
		if err != nil {
			censusDiff(c, ct.name+"/fd-exhaustion", fmt.Sprintf("%s failed (%v) with room for %d descriptors", ct.name, err, k), before)
		} else {
			cl()
			censusDiff(c, ct.name+"/after-close", fmt.Sprintf("%s succeeded with room for %d descriptors and was closed", ct.name, k), before)
		}
		for _, fd := range plugs {
			syscall.Close(fd)
		}
		c.Count("exhaustion_probes", 1)
		if err == nil {
			c.Max("max_k_"+ct.name, int64(k))
			return
		}
	}
}

// c13Failures: refused, bind conflict, failing option, nonexistent path, each repeated to see slow leaks.
func c13Failures(c *vf.Case, ioc *sonic.IO) {
	type probe struct {
		name string
		fn   func() error
	}
	// a port with nobody listening
	lfd, deadPort, _ := rawpeer.Listen4()
	syscall.Close(lfd)
	// a bound UDP port (no reuse) and a listening TCP port
	busyUDP, busyUDPPort, _ := rawpeer.UDP4([4]byte{127, 0, 0, 1})
	defer syscall.Close(busyUDP)
	busyTCP, busyTCPPort, _ := rawpeer.Listen4()
	defer syscall.Close(busyTCP)
	foreign := &net.TCPAddr{IP: net.IPv4(10, 9, 9, 9), Port: 0}
	probes := []probe{
		{"Dial-tcp/refused", func() error {
			cn, err := sonic.Dial(ioc, "tcp", rawpeer.AddrOf(deadPort))
			if err == nil {
				cn.Close()
			}
			return err
		}},
		{"Dial-udp/bind-to-foreign-address", func() error {
			cn, err := sonic.Dial(ioc, "udp", rawpeer.AddrOf(busyUDPPort), sonicopts.BindSocket(&net.UDPAddr{IP: net.IPv4(10, 9, 9, 9)}))
			if err == nil {
				cn.Close()
			}
			return err
		}},
		{"Dial-udp/connect-fails", func() error {
			// connect(2) itself fails on a datagram socket: the broadcast address without SO_BROADCAST (EACCES), or no
			// route to it at all in a namespace that has only the loopback interface (ENETUNREACH)
			cn, err := sonic.Dial(ioc, "udp", "255.255.255.255:9")
			if err == nil {
				cn.Close()
			}
			return err
		}},
		{"Dial-tcp/bind-to-foreign-address", func() error {
			cn, err := sonic.Dial(ioc, "tcp", rawpeer.AddrOf(busyTCPPort), sonicopts.BindSocket(foreign))
			if err == nil {
				cn.Close()
			}
			return err
		}},
		{"Dial-tcp/unresolvable-address", func() error {
			cn, err := sonic.Dial(ioc, "tcp", "127.0.0.1:notaport")
			if err == nil {
				cn.Close()
			}
			return err
		}},
		{"DialTimeout-tcp/unroutable", func() error {
			cn, err := sonic.DialTimeout(ioc, "tcp", "10.255.255.1:9", 2*time.Millisecond)
			if err == nil {
				cn.Close()
			}
			return err
		}},
		{"Listen/bind-conflict", func() error {
			l, err := sonic.Listen(ioc, "tcp", rawpeer.AddrOf(busyTCPPort))
			if err == nil {
				l.Close()
			}
			return err
		}},
		{"Listen/failing-option", func() error {
			l, err := sonic.Listen(ioc, "tcp", "127.0.0.1:0", sonicopts.BindSocket(foreign))
			if err == nil {
				l.Close()
			}
			return err
		}},
		{"NewPacketConn/bind-conflict", func() error {
			p, err := sonic.NewPacketConn(ioc, "udp", rawpeer.AddrOf(busyUDPPort))
			if err == nil {
				p.Close()
			}
			return err
		}},
		{"NewPacketConn/foreign-address", func() error {
			p, err := sonic.NewPacketConn(ioc, "udp", "10.9.9.9:0")
			if err == nil {
				p.Close()
			}
			return err
		}},
		{"NewUDPPeer/foreign-address", func() error {
			p, err := multicast.NewUDPPeer(ioc, "udp", "10.9.9.9:5000")
			if err == nil {
				p.Close()
			}
			return err
		}},
		{"NewUDPPeer/bad-network", func() error {
			p, err := multicast.NewUDPPeer(ioc, "udp", "not-an-address")
			if err == nil {
				p.Close()
			}
			return err
		}},
		{"Open/nonexistent-path", func() error {
			f, err := sonic.Open(ioc, "/nonexistent/dir/file", syscall.O_RDONLY, 0)
			if err == nil {
				f.Close()
			}
			return err
		}},
		{"NewMirroredBuffer/invalid-size", func() error {
			b, err := sbytes.NewMirroredBuffer(-4096, false)
			if err == nil {
				b.Destroy()
			}
			return err
		}},
	}
	for _, p := range probes {
		if c.Failed() {
			return
		}
		_ = p.fn() // warm-up (runtime may open descriptors of its own on first use)
		before := rawpeer.TakeCensus()
		var lastErr error
		fails := 0
		for i := 0; i < 30; i++ {
			if err := p.fn(); err != nil {
				fails++
				lastErr = err
			}
		}
		c.Logf("%s x30 -> %d failures (last error: %v)", p.name, fails, lastErr)
		c.Cover("constructor_x_failure", p.name)
		if fails == 0 {
			c.Count("failure_probes_that_did_not_fail", 1)
			continue
		}
		censusDiff(c, p.name, fmt.Sprintf("%s failed %d of 30 times (%v)", p.name, fails, lastErr), before)
		c.Count("failure_probes", 1)
	}
}

// c13Handshake: failing websocket handshakes against a raw server.
func c13Handshake(c *vf.Case, ioc *sonic.IO) {
	r := c.Rng
	ln, err := net.Listen("tcp", "127.0.0.1:0")
	if err != nil {
		c.Failf("harness-setup", "%v", err)
		return
	}
	defer ln.Close()
	port := ln.Addr().(*net.TCPAddr).Port
	kinds := []string{"closes-after-0", "closes-after-k", "status-200", "wrong-accept", "garbage", "refused"}
	s, err := websocket.NewWebsocketStream(ioc, nil, websocket.RoleClient)
	if err != nil {
		c.Failf("harness-setup", "%v", err)
		return
	}
	serve := func(kind string, done chan<- struct{}) {
		defer close(done)
		if kind == "refused" {
			return
		}
		conn, err := ln.Accept()
		if err != nil {
			return
		}
		defer conn.Close()
		_ = conn.SetDeadline(time.Now().Add(10 * time.Second))
		buf := make([]byte, 4096)
		req := ""
		if kind != "closes-after-0" {
			for !strings.Contains(req, "\r\n\r\n") {
				n, err := conn.Read(buf)
				if err != nil {
					return
				}
				req += string(buf[:n])
			}
		}
		switch kind {
		case "ok":
			key := ""
			for _, line := range strings.Split(req, "\r\n") {
				if strings.HasPrefix(strings.ToLower(line), "sec-websocket-key:") {
					key = strings.TrimSpace(line[len("sec-websocket-key:"):])
				}
			}
			_, _ = conn.Write([]byte("HTTP/1.1 101 Switching Protocols\r\nUpgrade: websocket\r\nConnection: Upgrade\r\nSec-WebSocket-Accept: " + c18Accept(key) + "\r\n\r\n"))
		case "closes-after-k":
			_, _ = conn.Write([]byte("HTTP/1.1 101 Switching Protocols\r\nUpgrade: websocket\r\nConnection: Upgrade\r\nSec-WebSocket-Accept: x\r\n\r\n")[:r.Range(1, 60)])
		case "status-200":
			_, _ = conn.Write([]byte("HTTP/1.1 200 OK\r\nContent-Length: 0\r\n\r\n"))
		case "wrong-accept":
			_, _ = conn.Write([]byte("HTTP/1.1 101 Switching Protocols\r\nUpgrade: websocket\r\nConnection: Upgrade\r\nSec-WebSocket-Accept: AAAAAAAAAAAAAAAAAAAAAAAAAAA=\r\n\r\n"))
		case "garbage":
			_, _ = conn.Write(r.Bytes(r.Range(1, 200)))
		}
		// give the client the time to read what was written before the close
		time.Sleep(2 * time.Millisecond)
	}
	run := func(kind string, async bool) error {
		done := make(chan struct{})
		go serve(kind, done)
		url := fmt.Sprintf("ws://127.0.0.1:%d/", port)
		if kind == "refused" {
			lfd, dead, _ := rawpeer.Listen4()
			syscall.Close(lfd)
			url = fmt.Sprintf("ws://127.0.0.1:%d/", dead)
		}
		var herr error
		if async {
			fin := false
			s.AsyncHandshake(url, func(e error) { herr = e; fin = true })
			c.Bounded("asynchandshake-callback-never-invoked", 40*time.Second, func() {
				for !fin {
					_ = ioc.RunOneFor(2 * time.Millisecond)
				}
			})
		} else {
			c.Bounded("handshake-never-returns", 40*time.Second, func() { herr = s.Handshake(url) })
		}
		<-done
		return herr
	}
	for _, kind := range kinds {
		for _, async := range []bool{false, true} {
			if c.Failed() {
				return
			}
			_ = run(kind, async) // warm-up
			_ = s.CloseNextLayer()
			// a complete, successful session on the same stream first: the failing handshakes below then run on a
			// stream that has been used before (half of the rounds)
			if r.Bool() {
				if err := run("ok", async); err != nil {
					c.Failf("harness-setup", "reference handshake failed: %v", err)
					return
				}
				_ = s.CloseNextLayer()
				c.Count("failing_handshakes_after_a_successful_session", 1)
			}
			time.Sleep(time.Millisecond)
			before := rawpeer.TakeCensus()
			fails := 0
			var last error
			for i := 0; i < 8; i++ {
				if err := run(kind, async); err != nil {
					fails++
					last = err
				}
			}
			name := "Handshake/" + kind
			if async {
				name = "AsyncHandshake/" + kind
			}
			c.Logf("%s x8 -> %d failures (last %v)", name, fails, last)
			c.Cover("constructor_x_failure", name)
			if fails != 8 {
				c.Failf("bad-handshake-accepted/"+kind, "%s: %d of 8 handshakes did not fail", name, 8-fails)
				return
			}
			// the server side closes its end a moment after the client returns; sockets in the census are the client's
			censusDiff(c, name, fmt.Sprintf("%s failed 8 times (%v) - the stream still holds what it dialed", name, last), before)
			c.Count("failure_probes", 1)
			_ = s.CloseNextLayer()
		}
	}
}

type c13Closable struct {
	name string
	make func(ioc *sonic.IO) (closeFn func() error, fd int, err error)
}

func c13Closables() []c13Closable {
	return []c13Closable{
		{"conn", func(ioc *sonic.IO) (func() error, int, error) {
			lfd, port, err := rawpeer.Listen4()
			if err != nil {
				return nil, -1, err
			}
			defer syscall.Close(lfd)
			cn, err := sonic.Dial(ioc, "tcp", rawpeer.AddrOf(port))
			if err != nil {
				return nil, -1, err
			}
			if pfd, _, err := rawpeer.Accept(lfd); err == nil {
				syscall.Close(pfd)
			}
			return cn.Close, cn.RawFd(), nil
		}},
		{"listener", func(ioc *sonic.IO) (func() error, int, error) {
			l, err := sonic.Listen(ioc, "tcp", "127.0.0.1:0")
			if err != nil {
				return nil, -1, err
			}
			return l.Close, l.RawFd(), nil
		}},
		{"packet-conn", func(ioc *sonic.IO) (func() error, int, error) {
			p, err := sonic.NewPacketConn(ioc, "udp", "127.0.0.1:0")
			if err != nil {
				return nil, -1, err
			}
			return p.Close, p.RawFd(), nil
		}},
		{"udp-peer", func(ioc *sonic.IO) (func() error, int, error) {
			p, err := multicast.NewUDPPeer(ioc, "udp", "127.0.0.1:0")
			if err != nil {
				return nil, -1, err
			}
			return p.Close, p.NextLayer().RawFd(), nil
		}},
		{"timer", func(ioc *sonic.IO) (func() error, int, error) {
			t, err := sonic.NewTimer(ioc)
			if err != nil {
				return nil, -1, err
			}
			return t.Close, -2, nil // the timer does not expose its descriptor; found through the census
		}},
		{"adapter", func(ioc *sonic.IO) (func() error, int, error) {
			// an AsyncAdapter over a net.Conn: the adapter's Close closes the connection, which owns the descriptor
			lfd, port, err := rawpeer.Listen4()
			if err != nil {
				return nil, -1, err
			}
			defer syscall.Close(lfd)
			nc, err := net.Dial("tcp", rawpeer.AddrOf(port))
			if err != nil {
				return nil, -1, err
			}
			if pfd, _, err := rawpeer.Accept(lfd); err == nil {
				syscall.Close(pfd)
			}
			var ad *sonic.AsyncAdapter
			var aerr error
			sonic.NewAsyncAdapter(ioc, nc.(*net.TCPConn), nc, func(e error, a *sonic.AsyncAdapter) { ad, aerr = a, e })
			if aerr != nil || ad == nil {
				nc.Close()
				return nil, -1, fmt.Errorf("adapter: %v", aerr)
			}
			return ad.Close, ad.RawFd(), nil
		}},
		{"file", func(ioc *sonic.IO) (func() error, int, error) {
			f, err := sonic.Open(ioc, "/proc/self/status", syscall.O_RDONLY, 0)
			if err != nil {
				return nil, -1, err
			}
			return f.Close, f.RawFd(), nil
		}},
		{"io", func(_ *sonic.IO) (func() error, int, error) {
			i, err := sonic.NewIO()
			if err != nil {
				return nil, -1, err
			}
			return i.Close, -2, nil
		}},
	}
}

// c13DoubleClose: close A; create B (descriptor numbers get reused); close A again; B must be intact.
func c13DoubleClose(c *vf.Case, ioc *sonic.IO) {
	cls := c13Closables()
	for _, a := range cls {
		for _, b := range cls {
			if c.Failed() {
				return
			}
			before := rawpeer.TakeCensus()
			closeA, _, err := a.make(ioc)
			if err != nil {
				c.Failf("harness-setup", "%s: %v", a.name, err)
				return
			}
			_ = closeA()
			censusDiff(c, "Close/"+a.name, "after closing a "+a.name, before)
			closeB, _, err := b.make(ioc)
			if err != nil {
				c.Failf("harness-setup", "%s: %v", b.name, err)
				return
			}
			withB := rawpeer.TakeCensus()
			err2 := closeA() // second Close of A: must not touch B's descriptors
			after := rawpeer.TakeCensus()
			_, closed := withB.Diff(after)
			c.Logf("close %s, create %s, close %s again -> %v; descriptors gone: %v", a.name, b.name, a.name, err2, closed)
			c.Cover("double_close_pairs", a.name+" then "+b.name)
			c.Count("double_close_probes", 1)
			if len(closed) > 0 {
				c.Failf("second-close-closed-a-foreign-descriptor/"+a.name, "closing a %s twice, with a %s created in between, closed descriptors the first object no longer owns: %v", a.name, b.name, closed)
			}
			_ = closeB()
			if !c.Failed() {
				censusDiff(c, "Close/"+b.name, "after closing everything", before)
			}
		}
	}
}

// c13CloseInsideOwnCallback: a timer is closed from inside its own callback (one-shot and repeating), and before that
// callback returns another timer is created, which receives the descriptor number just released. Whatever the library
// does after the callback returns (re-arming the series) and a later, repeated Close of the first timer must leave
// the second timer's descriptor alone: it stays open and the second timer still fires.
func c13CloseInsideOwnCallback(c *vf.Case, ioc *sonic.IO) {
	for _, repeating := range []bool{false, true} {
		for _, scheduleU := range []bool{false, true} {
			if c.Failed() {
				return
			}
			name := map[bool]string{false: "one-shot", true: "repeating"}[repeating]
			before := rawpeer.TakeCensus()
			T, err := sonic.NewTimer(ioc)
			if err != nil {
				c.Failf("harness-setup", "NewTimer: %v", err)
				return
			}
			var U *sonic.Timer
			var withU rawpeer.Census
			ticks, uFired, tAfterClose := 0, 0, 0
			cb := func() {
				ticks++
				if ticks > 1 {
					tAfterClose++
					return
				}
				_ = T.Close()
				U, err = sonic.NewTimer(ioc)
				if err == nil && scheduleU {
					_ = U.ScheduleOnce(30*time.Millisecond, func() { uFired++ })
				}
				withU = rawpeer.TakeCensus()
			}
			if repeating {
				err = T.ScheduleRepeating(2*time.Millisecond, cb)
			} else {
				err = T.ScheduleOnce(2*time.Millisecond, cb)
			}
			if err != nil {
				c.Failf("harness-setup", "schedule: %v", err)
				return
			}
			deadline := time.Now().Add(3 * time.Second)
			for ticks == 0 && time.Now().Before(deadline) {
				_, _ = ioc.PollOne()
			}
			if ticks == 0 || U == nil {
				c.Logf("close-inside-own-callback/%s: the timer did not fire within 3 s (or NewTimer failed: %v): probe skipped", name, err)
				c.Count("close_inside_own_callback_probes_skipped", 1)
				_ = T.Close()
				if U != nil {
					_ = U.Close()
				}
				continue
			}
			for i := 0; i < 5; i++ {
				_, _ = ioc.PollOne()
			}
			err2 := T.Close() // the repeated Close of a timer that closed itself inside its callback
			after := rawpeer.TakeCensus()
			_, closed := withU.Diff(after)
			c.Logf("close-inside-own-callback/%s (second timer scheduled: %v): second Close -> %v; descriptors gone since the callback: %v; Scheduled()=%v", name, scheduleU, err2, closed, T.Scheduled())
			c.Count("close_inside_own_callback_probes", 1)
			if len(closed) > 0 {
				c.Failf("second-close-closed-a-foreign-descriptor/timer-closed-in-own-callback", "a %s timer closed itself inside its callback, a second timer was created before the callback returned; closing the first timer again closed descriptors it no longer owns: %v", name, closed)
				return
			}
			if T.Scheduled() {
				c.Failf("closed-timer-revived/closed-in-own-callback", "a %s timer closed itself inside its callback and reports Scheduled()=true afterwards", name)
				return
			}
			// the second timer still works
			fired := 0
			if scheduleU {
				fired = -1 // its 30 ms schedule from inside the callback is still due or has run
			} else if err := U.ScheduleOnce(time.Millisecond, func() { uFired++ }); err != nil {
				c.Failf("second-timer-broken-after-first-closed-in-own-callback", "ScheduleOnce on the second timer: %v", err)
				return
			}
			_ = fired
			deadline = time.Now().Add(3 * time.Second)
			for uFired == 0 && time.Now().Before(deadline) {
				_, _ = ioc.PollOne()
			}
			if uFired != 1 {
				c.Failf("second-timer-broken-after-first-closed-in-own-callback", "the second timer's callback ran %d times within 3 s (first timer: %s, closed inside its own callback and once more afterwards)", uFired, name)
				return
			}
			if tAfterClose > 0 {
				c.Failf("callback-after-close/timer-closed-in-own-callback", "the callback of the %s timer ran %d more times after the timer closed itself", name, tAfterClose)
				return
			}
			_ = U.Close()
			censusDiff(c, "Close/timer-closed-in-own-callback", "after closing both timers", before)
		}
	}
}

// c13AdapterOwnership: an AsyncAdapter wraps a net.Conn that owns the descriptor. Closing the adapter and then
// the connection (what a websocket user does with NextLayer().Close() and CloseNextLayer()) must not close the
// descriptor number twice.
func c13AdapterOwnership(c *vf.Case, ioc *sonic.IO) {
	// two orders: the adapter first and then the connection it wraps, and the connection first (what
	// websocket.Stream.CloseNextLayer does) and then the adapter - another object takes the freed number in between
	for _, connFirst := range []bool{false, true} {
		lfd, port, err := rawpeer.Listen4()
		if err != nil {
			c.Failf("harness-setup", "%v", err)
			return
		}
		nc, err := net.Dial("tcp", rawpeer.AddrOf(port))
		if err != nil {
			syscall.Close(lfd)
			c.Failf("harness-setup", "%v", err)
			return
		}
		pfd, _, perr := rawpeer.Accept(lfd)
		var ad *sonic.AsyncAdapter
		sonic.NewAsyncAdapter(ioc, nc.(*net.TCPConn), nc, func(e error, a *sonic.AsyncAdapter) { ad = a })
		if ad == nil {
			syscall.Close(lfd)
			c.Failf("harness-setup", "no adapter")
			return
		}
		first, second := ad.Close, nc.Close
		order := "adapter then net.Conn"
		if connFirst {
			first, second = nc.Close, ad.Close
			order = "net.Conn then adapter"
		}
		_ = first()
		// another object takes the freed descriptor number
		other, err := sonic.NewPacketConn(ioc, "udp", "127.0.0.1:0")
		if err != nil {
			syscall.Close(lfd)
			c.Failf("harness-setup", "%v", err)
			return
		}
		withOther := rawpeer.TakeCensus()
		_ = second()
		after := rawpeer.TakeCensus()
		_, closed := withOther.Diff(after)
		c.Logf("%s, NewPacketConn (fd %d) in between -> descriptors gone: %v", order, other.RawFd(), closed)
		c.Cover("double_close_pairs", order+" with a packet-conn in between")
		if len(closed) > 0 {
			c.Failf("second-close-closed-a-foreign-descriptor/adapter-and-its-net.Conn", "closing %s closed a descriptor that meanwhile belonged to another object: %v", order, closed)
		}
		_ = other.Close()
		syscall.Close(lfd)
		if perr == nil {
			syscall.Close(pfd)
		}
		if c.Failed() {
			return
		}
	}
}

// c13DoubleCloseThenGC: close A; create B on the freed descriptor number and leave an operation deferred on it;
// close A AGAIN; drop every reference to B; collect. B's owner must stay alive and its completion must arrive: a
// second Close of A must not touch anything (descriptor, poller registration, keep-alive entry) that now belongs
// to B.
func c13DoubleCloseThenGC(c *vf.Case, ioc *sonic.IO) {
	cls := c13Closables()
	victims := []string{"listener-accept", "packet-conn-read", "conn-read", "udp-peer-read"}
	for _, a := range cls {
		if a.name == "io" {
			continue
		}
		for _, vk := range victims {
			if c.Failed() {
				return
			}
			closeA, _, err := a.make(ioc)
			if err != nil {
				c.Failf("harness-setup", "%s: %v", a.name, err)
				return
			}
			_ = closeA()
			finalized := new(int32)
			completed := 0
			var trigger func()
			var peerFd = -1
			vfd, vev := -1, int16(unix.POLLIN)
			func() {
				sentinel := &c13Sentinel{}
				runtime.SetFinalizer(sentinel, func(*c13Sentinel) { *finalized = 1 })
				switch vk {
				case "listener-accept":
					l, err := sonic.Listen(ioc, "tcp", "127.0.0.1:0", sonicopts.Nonblocking(true))
					if err != nil {
						return
					}
					sa, _ := syscall.Getsockname(l.RawFd())
					port := sa.(*syscall.SockaddrInet4).Port
					vfd = l.RawFd()
					l.AsyncAccept(func(err error, cn sonic.Conn) {
						completed++
						if cn != nil {
							cn.Close()
						}
						_ = sentinel.pad[0]
						_ = l.Close() // the victim owns its descriptor: released once its completion has arrived
					})
					trigger = func() { peerFd, _, _ = rawpeer.Connect4(port) }
				case "packet-conn-read":
					p, err := sonic.NewPacketConn(ioc, "udp", "127.0.0.1:0")
					if err != nil {
						return
					}
					sa, _ := syscall.Getsockname(p.RawFd())
					pfd, _, _ := rawpeer.UDP4([4]byte{127, 0, 0, 1})
					peerFd = pfd
					vfd = p.RawFd()
					p.AsyncReadFrom(make([]byte, 16), func(err error, n int, _ net.Addr) { completed++; _ = sentinel.pad[0]; _ = p.Close() })
					trigger = func() { _ = syscall.Sendto(pfd, []byte("x"), 0, sa) }
				case "udp-peer-read":
					p, err := multicast.NewUDPPeer(ioc, "udp", "127.0.0.1:0")
					if err != nil {
						return
					}
					port := p.LocalAddr().Port
					pfd, _, _ := rawpeer.UDP4([4]byte{127, 0, 0, 1})
					peerFd = pfd
					vfd = p.NextLayer().RawFd()
					p.AsyncRead(make([]byte, 16), func(err error, n int, _ netip.AddrPort) { completed++; _ = sentinel.pad[0]; _ = p.Close() })
					trigger = func() {
						_ = syscall.Sendto(pfd, []byte("x"), 0, &syscall.SockaddrInet4{Addr: [4]byte{127, 0, 0, 1}, Port: port})
					}
				default:
					lfd, port, _ := rawpeer.Listen4()
					defer syscall.Close(lfd)
					cn, err := sonic.Dial(ioc, "tcp", rawpeer.AddrOf(port))
					if err != nil {
						return
					}
					pfd, _, _ := rawpeer.Accept(lfd)
					peerFd = pfd
					saved := ioc.Dispatched
					ioc.Dispatched = sonic.MaxCallbackDispatch
					vfd = cn.RawFd()
					cn.AsyncRead(make([]byte, 16), func(err error, n int) { completed++; _ = sentinel.pad[0]; _ = cn.Close() })
					ioc.Dispatched = saved
					trigger = func() { _, _ = rawpeer.WriteSome(pfd, []byte("x")) }
				}
			}()
			if trigger == nil {
				c.Failf("harness-setup", "cannot create victim %s", vk)
				return
			}
			_ = closeA() // the second Close of A, after B took over whatever number A had
			for round := 0; round < 3; round++ {
				runtime.GC()
				junk := make([][]byte, 0, 500)
				for i := 0; i < 500; i++ {
					junk = append(junk, make([]byte, 512))
				}
				_ = junk
			}
			time.Sleep(time.Millisecond)
			c.Cover("double_close_then_gc_pairs", a.name+" then "+vk)
			c.Count("double_close_then_gc_probes", 1)
			if *finalized == 1 {
				c.Failf("second-close-unrooted-another-object/"+a.name, "closing a %s twice, with a %s created in between and an operation deferred on it: after the second Close the new object was garbage collected while its operation was still in flight", a.name, vk)
				return
			}
			trigger()
			why := c13Await(ioc, vfd, vev, &completed)
			if why == "skip" {
				c.Count("probes_skipped_trigger_never_reached_the_descriptor", 1)
			} else if completed != 1 {
				c.Failf("second-close-broke-another-objects-operation/"+a.name, "closing a %s twice, with a %s created in between: the %s's deferred operation completed %d times (%s)", a.name, vk, vk, completed, why)
				return
			}
			if peerFd >= 0 {
				syscall.Close(peerFd)
			}
		}
	}
	runtime.GC()
}

// c13DescriptorZero: a process started with stdin closed hands descriptor number 0 to the first object it creates.
// The number is as good as any other: Close releases it.
func c13DescriptorZero(c *vf.Case, ioc *sonic.IO) {
	saved, err := syscall.Dup(0)
	if err != nil {
		c.Count("descriptor_zero_probes_skipped", 1)
		return
	}
	restore := func() { _ = syscall.Dup2(saved, 0) }
	defer func() { restore(); syscall.Close(saved) }()
	type maker struct {
		name string
		make func() (func() error, int, error)
	}
	lfd, lport, lerr := rawpeer.Listen4()
	if lerr != nil {
		c.Failf("harness-setup", "%v", lerr)
		return
	}
	defer syscall.Close(lfd)
	makers := []maker{
		{"conn", func() (func() error, int, error) {
			cn, err := sonic.Dial(ioc, "tcp", rawpeer.AddrOf(lport))
			if err != nil {
				return nil, -1, err
			}
			return cn.Close, cn.RawFd(), nil
		}},
		{"listener", func() (func() error, int, error) {
			l, err := sonic.Listen(ioc, "tcp", "127.0.0.1:0")
			if err != nil {
				return nil, -1, err
			}
			return l.Close, l.RawFd(), nil
		}},
		{"packet-conn", func() (func() error, int, error) {
			p, err := sonic.NewPacketConn(ioc, "udp", "127.0.0.1:0")
			if err != nil {
				return nil, -1, err
			}
			return p.Close, p.RawFd(), nil
		}},
		{"udp-peer", func() (func() error, int, error) {
			p, err := multicast.NewUDPPeer(ioc, "udp", "127.0.0.1:0")
			if err != nil {
				return nil, -1, err
			}
			return p.Close, p.NextLayer().RawFd(), nil
		}},
		{"file", func() (func() error, int, error) {
			f, err := sonic.Open(ioc, "/proc/self/status", syscall.O_RDONLY, 0)
			if err != nil {
				return nil, -1, err
			}
			return f.Close, f.RawFd(), nil
		}},
		{"timer", func() (func() error, int, error) {
			t, err := sonic.NewTimer(ioc)
			if err != nil {
				return nil, -1, err
			}
			return t.Close, -2, nil
		}},
	}
	for _, m := range makers {
		if c.Failed() {
			return
		}
		syscall.Close(0)
		closeObj, fd, err := m.make()
		if err != nil {
			restore()
			c.Failf("harness-setup", "%s with descriptor 0 free: %v", m.name, err)
			return
		}
		if fd != 0 && fd != -2 {
			// the constructor allocated something else first: not the situation under test
			_ = closeObj()
			restore()
			c.Count("descriptor_zero_probes_skipped", 1)
			continue
		}
		_ = closeObj()
		if _, ferr := unix.FcntlInt(0, unix.F_GETFD, 0); ferr == nil {
			syscall.Close(0)
			restore()
			c.Failf("descriptor-leak/descriptor-zero/"+m.name, "%s created while descriptor 0 was free received that number; after Close descriptor 0 is still open", m.name)
			return
		}
		// a second Close must not touch whoever owns the number now
		restore()
		_ = closeObj()
		if _, ferr := unix.FcntlInt(0, unix.F_GETFD, 0); ferr != nil {
			restore()
			c.Failf("second-close-closed-a-foreign-descriptor/descriptor-zero/"+m.name, "a second Close of a %s that had owned descriptor 0 closed the descriptor that holds that number now", m.name)
			return
		}
		c.Count("descriptor_zero_probes", 1)
		c.Cover("descriptor_zero_kinds", m.name)
	}
}

// c13GCRearm: like c13GC, but the operation in flight when the references are dropped is one that was started from
// inside the object's own completion handler (the usual read loop): first operation deferred, its completion re-issues
// the operation, which is deferred again; only then are the references dropped and the collector run.
func c13GCRearm(c *vf.Case, ioc *sonic.IO) {
	r := c.Rng
	kinds := []string{"conn-read", "packet-conn-read", "udp-peer-read", "listener-accept", "timer"}
	for _, kind := range kinds {
		if c.Failed() {
			return
		}
		finalized := new(int32)
		first, completed := 0, 0
		var gotErr error
		var peerFds []int
		var trigger func()
		vfd := -1
		func() {
			sentinel := &c13Sentinel{}
			runtime.SetFinalizer(sentinel, func(*c13Sentinel) { *finalized = 1 })
			switch kind {
			case "conn-read":
				lfd, port, _ := rawpeer.Listen4()
				defer syscall.Close(lfd)
				cn, err := sonic.Dial(ioc, "tcp", rawpeer.AddrOf(port))
				if err != nil {
					c.Failf("harness-setup", "%v", err)
					return
				}
				pfd, _, _ := rawpeer.Accept(lfd)
				peerFds = append(peerFds, pfd)
				vfd = cn.RawFd()
				cn.AsyncRead(make([]byte, 64), func(err error, n int) {
					first++
					cn.AsyncRead(make([]byte, 64), func(err error, n int) { completed++; gotErr = err; _ = sentinel.pad[0]; _ = cn.Close() })
				})
				trigger = func() { _, _ = rawpeer.WriteSome(pfd, []byte("0123456789")) }
			case "packet-conn-read":
				p, err := sonic.NewPacketConn(ioc, "udp", "127.0.0.1:0")
				if err != nil {
					c.Failf("harness-setup", "%v", err)
					return
				}
				sa, _ := syscall.Getsockname(p.RawFd())
				pfd, _, _ := rawpeer.UDP4([4]byte{127, 0, 0, 1})
				peerFds = append(peerFds, pfd)
				vfd = p.RawFd()
				p.AsyncReadFrom(make([]byte, 64), func(err error, n int, _ net.Addr) {
					first++
					p.AsyncReadFrom(make([]byte, 64), func(err error, n int, _ net.Addr) { completed++; gotErr = err; _ = sentinel.pad[0]; _ = p.Close() })
				})
				trigger = func() { _ = syscall.Sendto(pfd, []byte("0123456789"), 0, sa) }
			case "udp-peer-read":
				p, err := multicast.NewUDPPeer(ioc, "udp", "127.0.0.1:0")
				if err != nil {
					c.Failf("harness-setup", "%v", err)
					return
				}
				port := p.LocalAddr().Port
				pfd, _, _ := rawpeer.UDP4([4]byte{127, 0, 0, 1})
				peerFds = append(peerFds, pfd)
				vfd = p.NextLayer().RawFd()
				p.AsyncRead(make([]byte, 64), func(err error, n int, _ netip.AddrPort) {
					first++
					p.AsyncRead(make([]byte, 64), func(err error, n int, _ netip.AddrPort) {
						completed++
						gotErr = err
						_ = sentinel.pad[0]
						_ = p.Close()
					})
				})
				trigger = func() {
					_ = syscall.Sendto(pfd, []byte("0123456789"), 0, &syscall.SockaddrInet4{Addr: [4]byte{127, 0, 0, 1}, Port: port})
				}
			case "listener-accept":
				l, err := sonic.Listen(ioc, "tcp", "127.0.0.1:0", sonicopts.Nonblocking(true))
				if err != nil {
					c.Failf("harness-setup", "%v", err)
					return
				}
				sa, _ := syscall.Getsockname(l.RawFd())
				port := sa.(*syscall.SockaddrInet4).Port
				vfd = l.RawFd()
				l.AsyncAccept(func(err error, cn sonic.Conn) {
					first++
					if cn != nil {
						cn.Close()
					}
					l.AsyncAccept(func(err error, cn sonic.Conn) {
						completed++
						gotErr = err
						if cn != nil {
							cn.Close()
						}
						_ = sentinel.pad[0]
						_ = l.Close()
					})
				})
				trigger = func() {
					fd, _, _ := rawpeer.Connect4(port)
					peerFds = append(peerFds, fd)
				}
			case "timer":
				t, err := sonic.NewTimer(ioc)
				if err != nil {
					c.Failf("harness-setup", "%v", err)
					return
				}
				_ = t.ScheduleOnce(2*time.Millisecond, func() {
					first++
					_ = t.ScheduleOnce(5*time.Millisecond, func() { completed++; _ = sentinel.pad[0]; _ = t.Close() })
				})
				trigger = func() { time.Sleep(6 * time.Millisecond) }
			}
		}()
		if c.Failed() {
			return
		}
		trigger()
		if why := c13Await(ioc, vfd, unix.POLLIN, &first); why == "skip" {
			c.Count("probes_skipped_trigger_never_reached_the_descriptor", 1)
			continue
		} else if first != 1 {
			c.Failf("harness-setup", "%s: first completion not delivered (%s)", kind, why)
			return
		}
		if completed != 0 {
			c.Failf("harness-setup", "%s: the re-issued operation completed at once", kind)
			return
		}
		var junk [][]byte
		for round := 0; round < 3; round++ {
			runtime.GC()
			for i := 0; i < 2000; i++ {
				junk = append(junk, make([]byte, r.Range(16, 4096)))
			}
			junk = junk[:0]
		}
		runtime.GC()
		time.Sleep(time.Millisecond)
		if *finalized == 1 {
			c.Failf("owner-of-in-flight-operation-collected/"+kind+"-reissued-from-its-handler", "%s: the operation was re-issued from inside its own completion handler and deferred again; with every reference dropped the object was collected while that operation was in flight", kind)
			return
		}
		trigger()
		why := c13Await(ioc, vfd, unix.POLLIN, &completed)
		c.Logf("%s re-issued from its handler: after GC: completed=%d err=%v %s", kind, completed, gotErr, why)
		if why == "skip" {
			c.Count("probes_skipped_trigger_never_reached_the_descriptor", 1)
		} else if completed != 1 || gotErr != nil {
			c.Failf("completion-not-delivered-after-gc/"+kind+"-reissued-from-its-handler", "%s: operation re-issued from its own handler, references dropped, GC: completion delivered %d times err=%v (%s)", kind, completed, gotErr, why)
		}
		for _, fd := range peerFds {
			if fd >= 0 {
				syscall.Close(fd)
			}
		}
		c.Count("gc_probes_reissued_from_handler", 1)
		c.Cover("gc_probe_kinds", kind+"-reissued")
	}
	runtime.GC()
}

// c13CloseOrders: Close releases the object's descriptor whatever the teardown order - object first, IO context first,
// object twice - also while an operation of the object is deferred to the poller.
func c13CloseOrders(c *vf.Case) {
	kinds := []string{"conn", "listener", "packet-conn", "udp-peer", "timer"}
	for _, kind := range kinds {
		for order := 0; order < 3; order++ {
			for _, deferred := range []bool{false, true} {
				if c.Failed() {
					return
				}
				before := rawpeer.TakeCensus()
				what := fmt.Sprintf("%s (operation deferred: %v), order %s", kind, deferred, []string{"object.Close, IO.Close", "IO.Close, object.Close", "object.Close x2, IO.Close"}[order])
				ioc, err := sonic.NewIO()
				if err != nil {
					c.Failf("harness-setup", "%v", err)
					return
				}
				var closeObj func() error
				var peerFds []int
				calls := 0
				switch kind {
				case "conn":
					lfd, port, _ := rawpeer.Listen4()
					cn, err := sonic.Dial(ioc, "tcp", rawpeer.AddrOf(port))
					if err != nil {
						syscall.Close(lfd)
						ioc.Close()
						c.Failf("harness-setup", "%v", err)
						return
					}
					pfd, _, _ := rawpeer.Accept(lfd)
					syscall.Close(lfd)
					peerFds = append(peerFds, pfd)
					if deferred {
						cn.AsyncRead(make([]byte, 8), func(error, int) { calls++ })
					}
					closeObj = cn.Close
				case "listener":
					l, err := sonic.Listen(ioc, "tcp", "127.0.0.1:0", sonicopts.Nonblocking(true))
					if err != nil {
						ioc.Close()
						c.Failf("harness-setup", "%v", err)
						return
					}
					if deferred {
						l.AsyncAccept(func(error, sonic.Conn) { calls++ })
					}
					closeObj = l.Close
				case "packet-conn":
					p, err := sonic.NewPacketConn(ioc, "udp", "127.0.0.1:0")
					if err != nil {
						ioc.Close()
						c.Failf("harness-setup", "%v", err)
						return
					}
					if deferred {
						p.AsyncReadFrom(make([]byte, 8), func(error, int, net.Addr) { calls++ })
					}
					closeObj = p.Close
				case "udp-peer":
					p, err := multicast.NewUDPPeer(ioc, "udp", "127.0.0.1:0")
					if err != nil {
						ioc.Close()
						c.Failf("harness-setup", "%v", err)
						return
					}
					if deferred {
						p.AsyncRead(make([]byte, 8), func(error, int, netip.AddrPort) { calls++ })
					}
					closeObj = p.Close
				case "timer":
					t, err := sonic.NewTimer(ioc)
					if err != nil {
						ioc.Close()
						c.Failf("harness-setup", "%v", err)
						return
					}
					if deferred {
						_ = t.ScheduleOnce(time.Hour, func() { calls++ })
					}
					closeObj = t.Close
				}
				switch order {
				case 0:
					_ = closeObj()
					_ = ioc.Close()
				case 1:
					_ = ioc.Close()
					_ = closeObj()
				default:
					_ = closeObj()
					_ = closeObj()
					_ = ioc.Close()
				}
				for _, fd := range peerFds {
					syscall.Close(fd)
				}
				c.Count("teardown_orders_checked", 1)
				c.Cover("teardown_orders", what)
				if !censusDiff(c, "teardown/"+kind, what, before) {
					return
				}
			}
		}
	}
}

type c13Sentinel struct{ pad [64]byte }

// c13Await polls the loop until the victim's completion arrives. The verdict is taken on logical steps: only once
// poll(2) reports the victim's own descriptor ready (the kernel did deliver the trigger to THIS socket) does the loop
// get a bounded number of cycles to dispatch it. Returns "" when completed, "skip" when the kernel never made the
// descriptor ready within the generous wall-clock bound (nothing to judge), else the reason for a violation.
func c13Await(ioc *sonic.IO, vfd int, events int16, completed *int) string {
	readyCycles := 0
	deadline := time.Now().Add(8 * time.Second)
	for *completed == 0 {
		if vfd >= 0 {
			rev := rawpeer.Ready(vfd, events)
			if rev&unix.POLLNVAL != 0 {
				return "its descriptor is no longer open"
			}
			if rev&(events|unix.POLLHUP|unix.POLLERR) != 0 {
				readyCycles++
				if readyCycles > 300 {
					return "poll(2) reports its descriptor ready and 300 loop cycles did not dispatch it"
				}
			}
		}
		if time.Now().After(deadline) {
			if vfd < 0 {
				return "the loop was run for 8 s"
			}
			return "skip"
		}
		_ = ioc.RunOneFor(time.Millisecond)
	}
	return ""
}

// c13RecreateInsideHandler: the completion handler of a deferred read closes its connection and dials a new one at
// once (the reconnect idiom); the new connection receives the descriptor number just released and parks a read before
// the handler returns. Whatever the library still does on behalf of the closed connection after the handler returns
// must leave the new one alone: with every reference dropped and the collector run, the new connection's read still
// completes.
func c13RecreateInsideHandler(c *vf.Case, ioc *sonic.IO) {
	lfd, port, err := rawpeer.Listen4()
	if err != nil {
		c.Failf("harness-setup", "%v", err)
		return
	}
	defer syscall.Close(lfd)
	finalized := new(int32)
	completed, firstDone := 0, 0
	var gotN int
	var gotErr error
	peerA, peerB, vfd := -1, -1, -1
	sameNumber := false
	func() {
		sentinel := &c13Sentinel{}
		runtime.SetFinalizer(sentinel, func(*c13Sentinel) { *finalized = 1 })
		a, err := sonic.Dial(ioc, "tcp", rawpeer.AddrOf(port))
		if err != nil {
			c.Failf("harness-setup", "%v", err)
			return
		}
		peerA, _, _ = rawpeer.Accept(lfd)
		afd := a.RawFd()
		a.AsyncRead(make([]byte, 16), func(error, int) {
			firstDone++
			_ = a.Close()
			b, err := sonic.Dial(ioc, "tcp", rawpeer.AddrOf(port))
			if err != nil {
				return
			}
			peerB, _, _ = rawpeer.Accept(lfd)
			vfd = b.RawFd()
			sameNumber = vfd == afd
			b.AsyncRead(make([]byte, 16), func(err error, n int) {
				completed++
				gotN, gotErr = n, err
				_ = sentinel.pad[0]
				_ = b.Close()
			})
		})
	}()
	if c.Failed() {
		return
	}
	_, _ = rawpeer.WriteSome(peerA, []byte("go"))
	for i := 0; i < 2000 && firstDone == 0; i++ {
		_ = ioc.RunOneFor(time.Millisecond)
	}
	if peerA >= 0 {
		defer syscall.Close(peerA)
	}
	if peerB >= 0 {
		defer syscall.Close(peerB)
	}
	if firstDone != 1 || vfd < 0 || completed != 0 {
		c.Logf("recreate-inside-handler: first read completed %d times, second connection fd %d, its read completed %d times: probe skipped", firstDone, vfd, completed)
		c.Count("recreate_inside_handler_probes_skipped", 1)
		return
	}
	for round := 0; round < 3; round++ {
		runtime.GC()
		junk := make([][]byte, 0, 500)
		for i := 0; i < 500; i++ {
			junk = append(junk, make([]byte, 512))
		}
		_ = junk
	}
	time.Sleep(time.Millisecond)
	c.Count("recreate_inside_handler_probes", 1)
	if sameNumber {
		c.Count("recreate_inside_handler_probes_with_the_number_reused", 1)
	}
	if *finalized == 1 {
		c.Failf("owner-of-in-flight-operation-collected/conn-created-inside-the-handler-of-the-closed-one", "a connection dialed (descriptor number reused: %v) and given a deferred read inside the completion handler of the connection it replaces was garbage collected while that read was in flight", sameNumber)
		return
	}
	_, _ = rawpeer.WriteSome(peerB, []byte("0123456789"))
	why := c13Await(ioc, vfd, unix.POLLIN, &completed)
	if why == "skip" {
		c.Count("probes_skipped_trigger_never_reached_the_descriptor", 1)
	} else if completed != 1 || gotErr != nil || gotN != 10 {
		c.Failf("completion-not-delivered-after-gc/conn-created-inside-the-handler-of-the-closed-one", "the read of the connection created inside the handler completed %d times with n=%d err=%v (%s)", completed, gotN, gotErr, why)
	}
}

// c13GC: an object with a deferred operation whose every user reference is dropped must survive the GC
// and still deliver its completion.
func c13GC(c *vf.Case, ioc *sonic.IO) {
	r := c.Rng
	// "+high-descriptor": the process holds some 4100 other descriptors while the object is created, so its number lies
	// above the range an IO context keeps in a fixed table (only kinds whose descriptor does not pass through
	// sonic's connect, which selects on an FdSet)
	const hi = "+high-descriptor"
	kinds := []string{"conn-read", "packet-conn-read", "udp-peer-read", "listener-accept", "timer", "conn-write", "conn-read-after-its-write-completed", "adapter-read-after-its-write-completed",
		"adapter-read-after-its-write-completed" + hi, "packet-conn-read" + hi, "timer" + hi, "listener-accept-after-a-spurious-wake-up"}
	var filler []int
	dropFiller := func() {
		for _, fd := range filler {
			syscall.Close(fd)
		}
		filler = nil
	}
	defer dropFiller()
	for _, kk := range kinds {
		if c.Failed() {
			return
		}
		kind := strings.TrimSuffix(kk, hi)
		if kk != kind {
			first, err := syscall.Open("/dev/null", syscall.O_RDONLY|syscall.O_CLOEXEC, 0)
			if err != nil {
				c.Count("high_descriptor_probes_skipped", 1)
				continue
			}
			filler = append(filler, first)
			for top := first; top < 4100; {
				fd, _, e := syscall.Syscall(syscall.SYS_FCNTL, uintptr(first), syscall.F_DUPFD_CLOEXEC, 0)
				if e != 0 {
					break
				}
				filler = append(filler, int(fd))
				top = int(fd)
			}
			if filler[len(filler)-1] < 4100 {
				dropFiller()
				c.Count("high_descriptor_probes_skipped", 1)
				continue
			}
			c.Count("gc_probes_on_descriptors_above_4096", 1)
		}
		finalized := new(int32)
		completed := 0
		otherDone := 0
		var gotN int
		var gotErr error
		var peerFd int = -1
		var trigger func()
		skipKind := false
		vfd, vev := -1, int16(unix.POLLIN)
		// everything the application holds lives inside this function call
		func() {
			sentinel := &c13Sentinel{}
			runtime.SetFinalizer(sentinel, func(*c13Sentinel) { *finalized = 1 })
			switch kind {
			case "conn-read", "conn-write":
				lfd, port, _ := rawpeer.Listen4()
				defer syscall.Close(lfd)
				cn, err := sonic.Dial(ioc, "tcp", rawpeer.AddrOf(port))
				if err != nil {
					c.Failf("harness-setup", "%v", err)
					return
				}
				pfd, _, _ := rawpeer.Accept(lfd)
				peerFd = pfd
				saved := ioc.Dispatched
				ioc.Dispatched = sonic.MaxCallbackDispatch
				vfd = cn.RawFd()
				if kind == "conn-read" {
					cn.AsyncRead(make([]byte, 16), func(err error, n int) { completed++; gotN, gotErr = n, err; _ = sentinel.pad[0]; _ = cn.Close() })
					trigger = func() { _, _ = rawpeer.WriteSome(pfd, []byte("0123456789")) }
				} else {
					vev = unix.POLLOUT
					cn.AsyncWrite([]byte("0123456789"), func(err error, n int) { completed++; gotN, gotErr = n, err; _ = sentinel.pad[0]; _ = cn.Close() })
					trigger = func() {}
				}
				ioc.Dispatched = saved
			case "conn-read-after-its-write-completed", "adapter-read-after-its-write-completed":
				// a read (nothing to read yet) and a write (deferred at the dispatch limit) are in flight on one object; the
				// write completes at the next poll; the read is then the operation in flight that keeps its owner alive
				lfd, port, _ := rawpeer.Listen4()
				defer syscall.Close(lfd)
				var fdo sonic.FileDescriptor
				if kind[0] == 'c' {
					cn, err := sonic.Dial(ioc, "tcp", rawpeer.AddrOf(port))
					if err != nil {
						c.Failf("harness-setup", "%v", err)
						return
					}
					fdo = cn
				} else {
					nc, err := net.Dial("tcp", rawpeer.AddrOf(port))
					if err != nil {
						c.Failf("harness-setup", "%v", err)
						return
					}
					var ad *sonic.AsyncAdapter
					sonic.NewAsyncAdapter(ioc, nc.(*net.TCPConn), nc, func(e error, a *sonic.AsyncAdapter) { ad = a })
					if ad == nil {
						nc.Close()
						c.Failf("harness-setup", "NewAsyncAdapter failed")
						return
					}
					fdo = ad
				}
				pfd, _, _ := rawpeer.Accept(lfd)
				peerFd = pfd
				vfd = fdo.RawFd()
				fdo.AsyncRead(make([]byte, 16), func(err error, n int) { completed++; gotN, gotErr = n, err; _ = sentinel.pad[0]; _ = fdo.Close() })
				saved := ioc.Dispatched
				ioc.Dispatched = sonic.MaxCallbackDispatch
				fdo.AsyncWrite([]byte("written first"), func(err error, n int) { otherDone++ })
				ioc.Dispatched = saved
				for i := 0; i < 50 && otherDone == 0; i++ {
					_, _ = ioc.PollOne()
				}
				if otherDone != 1 || completed != 0 {
					c.Failf("harness-setup", "%s: the deferred write completed %d times, the read %d times before anything was sent", kind, otherDone, completed)
					return
				}
				trigger = func() { _, _ = rawpeer.WriteSome(pfd, []byte("0123456789")) }
			case "packet-conn-read":
				p, err := sonic.NewPacketConn(ioc, "udp", "127.0.0.1:0")
				if err != nil {
					c.Failf("harness-setup", "%v", err)
					return
				}
				sa, _ := syscall.Getsockname(p.RawFd())
				pfd, _, _ := rawpeer.UDP4([4]byte{127, 0, 0, 1})
				peerFd = pfd
				vfd = p.RawFd()
				p.AsyncReadFrom(make([]byte, 16), func(err error, n int, _ net.Addr) {
					completed++
					gotN, gotErr = n, err
					_ = sentinel.pad[0]
					_ = p.Close()
				})
				trigger = func() { _ = syscall.Sendto(pfd, []byte("0123456789"), 0, sa) }
			case "udp-peer-read":
				p, err := multicast.NewUDPPeer(ioc, "udp", "127.0.0.1:0")
				if err != nil {
					c.Failf("harness-setup", "%v", err)
					return
				}
				port := p.LocalAddr().Port
				pfd, _, _ := rawpeer.UDP4([4]byte{127, 0, 0, 1})
				peerFd = pfd
				vfd = p.NextLayer().RawFd()
				p.AsyncRead(make([]byte, 16), func(err error, n int, _ netip.AddrPort) {
					completed++
					gotN, gotErr = n, err
					_ = sentinel.pad[0]
					_ = p.Close()
				})
				trigger = func() {
					_ = syscall.Sendto(pfd, []byte("0123456789"), 0, &syscall.SockaddrInet4{Addr: [4]byte{127, 0, 0, 1}, Port: port})
				}
			case "listener-accept":
				l, err := sonic.Listen(ioc, "tcp", "127.0.0.1:0", sonicopts.Nonblocking(true))
				if err != nil {
					c.Failf("harness-setup", "%v", err)
					return
				}
				sa, _ := syscall.Getsockname(l.RawFd())
				port := sa.(*syscall.SockaddrInet4).Port
				vfd = l.RawFd()
				l.AsyncAccept(func(err error, cn sonic.Conn) {
					completed++
					gotErr = err
					gotN = 10
					if cn != nil {
						cn.Close()
					}
					_ = sentinel.pad[0]
					_ = l.Close()
				})
				trigger = func() {
					fd, _, _ := rawpeer.Connect4(port)
					peerFd = fd
				}
			case "listener-accept-after-a-spurious-wake-up":
				// the parked accept is woken although nothing is queued any more: a handler that runs earlier in the same
				// poll batch (a posted one: the eventfd became ready first) takes the connection with accept(2) on the
				// descriptor. The accept loop then waits again - through its callback (ErrWouldBlock) or silently inside
				// the library; either way an accept is in flight afterwards and keeps the listener alive
				l, err := sonic.Listen(ioc, "tcp", "127.0.0.1:0", sonicopts.Nonblocking(true))
				if err != nil {
					c.Failf("harness-setup", "%v", err)
					return
				}
				sa, _ := syscall.Getsockname(l.RawFd())
				port := sa.(*syscall.SockaddrInet4).Port
				vfd = l.RawFd()
				lfd := l.RawFd()
				var accept func()
				accept = func() {
					l.AsyncAccept(func(err error, cn sonic.Conn) {
						if errors.Is(err, sonicerrors.ErrWouldBlock) {
							accept()
							return
						}
						completed++
						gotErr = err
						gotN = 10
						if cn != nil {
							cn.Close()
						}
						_ = sentinel.pad[0]
						_ = l.Close()
					})
				}
				accept()
				stolen := -1
				_ = ioc.Post(func() {
					rawpeer.WaitReadable(lfd, 1000)
					stolen, _, _ = rawpeer.Accept(lfd)
				})
				first, _, _ := rawpeer.Connect4(port)
				for i := 0; i < 50 && stolen < 0 && completed == 0; i++ {
					_, _ = ioc.PollOne()
				}
				for i := 0; i < 5; i++ {
					_, _ = ioc.PollOne()
				}
				if stolen >= 0 {
					syscall.Close(stolen)
				}
				if first >= 0 {
					syscall.Close(first)
				}
				if completed != 0 || stolen < 0 {
					// the listener's handler ran before the posted one: no spurious wake-up was constructed
					skipKind = true
					return
				}
				c.Count("spurious_wakeups_of_a_parked_accept", 1)
				trigger = func() {
					fd, _, _ := rawpeer.Connect4(port)
					peerFd = fd
				}
			case "timer":
				t, err := sonic.NewTimer(ioc)
				if err != nil {
					c.Failf("harness-setup", "%v", err)
					return
				}
				_ = t.ScheduleOnce(3*time.Millisecond, func() { completed++; gotN = 10; _ = sentinel.pad[0]; _ = t.Close() })
				if r.Bool() {
					// a second schedule is refused (the timer holds one): the refusal must not cost the pending schedule
					// whatever keeps its timer alive
					if err := t.ScheduleOnce(time.Hour, func() {}); err == nil {
						c.Failf("harness-setup", "a second schedule on a scheduled timer was accepted")
						return
					}
					c.Count("gc_probes_timer_with_a_refused_second_schedule", 1)
				}
				trigger = func() { time.Sleep(4 * time.Millisecond) }
			}
		}()
		if skipKind {
			c.Count("gc_probes_skipped_situation_not_constructed", 1)
			dropFiller()
			continue
		}
		if c.Failed() {
			return
		}
		// references are gone: collect, churn the heap, collect again
		var junk [][]byte
		for round := 0; round < 3; round++ {
			runtime.GC()
			for i := 0; i < 2000; i++ {
				junk = append(junk, make([]byte, r.Range(16, 4096)))
			}
			junk = junk[:0]
		}
		runtime.GC()
		time.Sleep(time.Millisecond) // finalizer goroutine
		if *finalized == 1 {
			c.Failf("owner-of-in-flight-operation-collected/"+kind, "%s: the sentinel captured by the pending callback was finalized while the operation was still in flight", kind)
			return
		}
		trigger()
		// the collector also runs INSIDE the poll batch that delivers the completion (hook at poll:batch-entry)
		gcInBatch := 0
		sonic.VerifSetPoint(func(name string) {
			if name == "poll:batch-entry" && gcInBatch < 3 {
				gcInBatch++
				runtime.GC()
			}
		})
		why := c13Await(ioc, vfd, vev, &completed)
		sonic.VerifSetPoint(nil)
		c.Count("collections_inside_a_poll_batch", gcInBatch)
		c.Logf("%s: after GC x4 + heap churn: completed=%d n=%d err=%v %s", kind, completed, gotN, gotErr, why)
		if why == "skip" {
			c.Count("probes_skipped_trigger_never_reached_the_descriptor", 1)
		} else if completed != 1 || gotErr != nil || gotN != 10 {
			c.Failf("completion-not-delivered-after-gc/"+kind, "%s: after the garbage collector ran, the completion was delivered %d times with n=%d err=%v (%s)", kind, completed, gotN, gotErr, why)
		}
		if peerFd >= 0 {
			syscall.Close(peerFd)
		}
		c.Count("gc_probes_with_completion_delivered", 1)
		c.Cover("gc_probe_kinds", kk)
		if kk != kind && vfd >= 0 {
			c.Max("highest_descriptor_of_a_gc_probe", int64(vfd))
		}
		dropFiller()
	}
	runtime.GC() // let the now-unreferenced objects go
}

func runC13(c *vf.Case) {
	// keep this goroutine on one thread: RLIMIT_NOFILE is per process but the census walks /proc/self
	runtime.LockOSThread()
	defer runtime.UnlockOSThread()
	ioc, err := sonic.NewIO()
	if err != nil {
		c.Failf("harness-setup", "NewIO: %v", err)
		return
	}
	defer ioc.Close()
	// warm the runtime: netpoller, DNS-less dial, /proc reads, temp files
	if ln, err := net.Listen("tcp", "127.0.0.1:0"); err == nil {
		if cn, err := net.Dial("tcp", ln.Addr().String()); err == nil {
			cn.Close()
		}
		ln.Close()
	}
	_ = rawpeer.TakeCensus()
	if f, err := os.CreateTemp("", "warm"); err == nil {
		f.Close()
		os.Remove(f.Name())
	}
	_, _ = filepath.Glob("/dev/shm/*")
	_ = unix.Getpid()
	mode := c.Index % 5
	switch mode {
	case 0:
		lfd, port, lerr := rawpeer.Listen4()
		if lerr != nil {
			c.Failf("harness-setup", "%v", lerr)
			return
		}
		defer syscall.Close(lfd)
		c13LivePort = port
		acc, aerr := sonic.Listen(ioc, "tcp", "127.0.0.1:0", sonicopts.Nonblocking(true))
		if aerr != nil {
			c.Failf("harness-setup", "%v", aerr)
			return
		}
		defer acc.Close()
		c13Accepter = acc
		asa, _ := syscall.Getsockname(acc.RawFd())
		var clients []int
		for i := 0; i < 40; i++ {
			if fd, _, err := rawpeer.Connect4(asa.(*syscall.SockaddrInet4).Port); err == nil {
				clients = append(clients, fd)
			}
		}
		defer func() {
			for _, fd := range clients {
				syscall.Close(fd)
			}
			// connections accepted by the raw live listener
			for {
				fd, _, err := syscall.Accept4(lfd, syscall.SOCK_NONBLOCK)
				if err != nil {
					break
				}
				syscall.Close(fd)
			}
		}()
		cts := c13Ctors()
		for _, ct := range cts {
			if c.Failed() {
				break
			}
			c13Exhaustion(c, ioc, ct)
		}
		c.NonTrivial(fmt.Sprintf("exhaustion/%d", c.Index))
	case 1:
		c13Failures(c, ioc)
		c.NonTrivial(fmt.Sprintf("failures/%d", c.Index))
	case 2:
		c13Handshake(c, ioc)
		c.NonTrivial(fmt.Sprintf("handshake/%d", c.Index))
	case 3:
		c13DoubleClose(c, ioc)
		if !c.Failed() {
			c13AdapterOwnership(c, ioc)
		}
		if !c.Failed() {
			c13DoubleCloseThenGC(c, ioc)
		}
		if !c.Failed() {
			c13CloseInsideOwnCallback(c, ioc)
		}
		c.NonTrivial(fmt.Sprintf("double-close/%d", c.Index))
	default:
		c13GC(c, ioc)
		if !c.Failed() {
			c13GCRearm(c, ioc)
		}
		if !c.Failed() {
			c13RecreateInsideHandler(c, ioc)
		}
		if !c.Failed() {
			c13CloseOrders(c)
		}
		if !c.Failed() {
			c13DescriptorZero(c, ioc)
		}
		c.NonTrivial(fmt.Sprintf("gc/%d", c.Index))
	}
}

func init() {
	register(&vf.Check{
		ID:        "C13",
		Level:     "fault_enumeration",
		Technique: "fault enumeration under runtime monitors: /proc/self/fd census before/after every failing constructor (refused, bind conflict, failing option, bad path, bad/truncated handshake responses, descriptor-table exhaustion at the k-th allocation for every k via a packed table + RLIMIT_NOFILE), double-Close matrix with descriptor reuse checked by census, GC probes with a finalizer sentinel captured by the pending callback",
		Rule: "one GC probe has a listener whose parked accept was woken spuriously (a posted handler earlier in the batch took the connection with accept(2)) and waits again; GC probes are repeated for an adapter (read after its write completed), a packet conn and a timer whose descriptor number lies above 4096 (the process holds 4100 other descriptors while the object is created); an adapter and the net.Conn it wraps are closed in both orders with another object created in between; a connection re-created (same number) with a parked read inside the completion handler of the one it replaces must survive the collector; " +
			"the close-twice matrix includes an AsyncAdapter over a net.Conn; failing constructors include a UDP Dial whose connect(2) fails; timers that close themselves inside their own callback (one-shot and repeating) with a second timer created before the callback returns, then closed again; GC probes also for a timer with a refused second schedule and for a conn / adapter whose read stays in flight after its write completed; " +
			"cases rotate over five probe families: (0) for each of {NewIO, NewTimer, Listen, NewPacketConn, NewUDPPeer, Open, NewMirroredBuffer}: pack the descriptor table and lower RLIMIT_NOFILE so that only k more descriptors can be allocated, for k = 0,1,2,... until the constructor succeeds; (1) 13 failing constructors/connects (refused, unroutable with timeout, bind to foreign address, bind conflict, failing option, bad address, nonexistent path, invalid size) x 30 repetitions; (2) websocket Handshake and AsyncHandshake against a raw server that closes after 0 / k bytes, answers 200, a wrong accept key, garbage, or is not there x 8 repetitions; (3) the 7x7 matrix 'close A, create B, close A again' over {conn, listener, packet conn, UDP peer, timer, file, IO}; (4) GC probes for {conn read, conn write, packet conn read, UDP peer read, listener accept, timer} with references dropped, 4 collections and heap churn, the same with the operation re-issued from inside its own completion handler, and the teardown orders {object then IO, IO then object, object twice then IO} for {conn, listener, packet conn, UDP peer, timer} with and without a deferred operation, each followed by a census, and each of {conn, listener, packet conn, UDP peer, file, timer} created while descriptor 0 is free (it receives that number) and closed once and twice; the census is always taken without running the GC; " +
			"every case is non-trivial; distinct = (family, case index)",
		Assumptions: []string{
			"the Go runtime opens descriptors lazily: every probe is warmed up once before its baseline census",
			"numeric addresses only (no DNS)",
			"descriptors kept by design by a successful constructor are not leaks; they must be gone after Close",
			"the AsyncAdapter/net.Conn ownership question (adapter.Close closes the number behind net.Conn) is exercised through the websocket stream only",
		},
		NumCases: func(tier, build string) int { return vf.Tiered(tier, 20, 600) },
		Shards:   func(tier, build string) int { return vf.Tiered(tier, 5, 15) },
		Floor:    func(tier string) int { return vf.Tiered(tier, 5, 20) },
		Run:      runC13,
	})
}
