package checks

import (
	"bytes"
	"fmt"
	"math"
	"strings"
	"time"
	"unsafe"

	"github.com/talostrading/sonic"

	"verif/internal/vf"
)

// C10 - BipBuffer: FIFO of contiguous chunks, claims never overlap queued data.
//
// Oracle: model = FIFO list of committed chunks, each with its physical byte range relative to the base
// address (taken from a full-size claim of the fresh buffer, which also serves as a window onto the whole
// backing array) and its content. Overlap is decided by address arithmetic AND by content: every claim is
// scribbled over with a fresh pattern before commit and all queued chunks are re-read through the window.

type c10Chunk struct {
	lo, hi  int    // physical range of the not yet consumed part
	content []byte // not yet consumed bytes
}

func sliceOff(window, s []byte) int {
	return int(uintptr(unsafe.Pointer(unsafe.SliceData(s))) - uintptr(unsafe.Pointer(unsafe.SliceData(window))))
}

func runC10(c *vf.Case) {
	r := c.Rng
	var size int
	switch r.Intn(8) {
	case 0:
		size = 4096
	case 1:
		size = 65536
	default:
		size = r.Range(1, 64)
	}
	buf := sonic.NewBipBuffer(size)
	window := buf.Claim(size)
	if len(window) != size {
		c.Failf("fresh-buffer-full-claim", "fresh BipBuffer(%d) granted a claim of %d", size, len(window))
		return
	}
	buf.Commit(0) // drop the claim again (documented: Commit(0) clears the claim)
	c.Logf("NewBipBuffer(%d)", size)

	var fifo []c10Chunk
	total := 0
	var claim []byte // outstanding claim (nil if none)
	claimOff := 0
	haveClaim := false
	gen := r.U64()
	genOff := 0
	wraps, wrappedCommits, ccc := 0, 0, 0
	consumedSinceClaim := false
	var shape strings.Builder

	verify := func(op string) {
		if got := buf.Committed(); got != total {
			c.Failf("committed-count-after-"+op, "after %s: Committed()=%d, model has %d queued bytes", op, got, total)
		}
		// queued bytes must be physically intact
		for i, ch := range fifo {
			if !bytes.Equal(window[ch.lo:ch.hi], ch.content) {
				c.Failf("queued-bytes-corrupted-after-"+op, "after %s: queued chunk %d at [%d,%d) changed", op, i, ch.lo, ch.hi)
				break
			}
		}
		h := buf.Head()
		if len(fifo) == 0 {
			if len(h) != 0 {
				c.Failf("head-nonempty-on-empty-fifo-after-"+op, "after %s: Head() has %d bytes, model FIFO is empty", op, len(h))
			}
			return
		}
		first := fifo[0]
		if len(h) < len(first.content) {
			c.Failf("head-shorter-than-oldest-chunk-after-"+op, "after %s: Head() has %d bytes, oldest unconsumed chunk has %d (chunk split or hidden)", op, len(h), len(first.content))
			return
		}
		if off := sliceOff(window, h); off != first.lo {
			c.Failf("head-not-at-oldest-chunk-after-"+op, "after %s: Head() starts at %d, oldest chunk is at %d", op, off, first.lo)
			return
		}
		// Head() must be a prefix of the FIFO content
		var cat []byte
		for _, ch := range fifo {
			cat = append(cat, ch.content...)
			if len(cat) >= len(h) {
				break
			}
		}
		if len(cat) < len(h) || !bytes.Equal(h, cat[:len(h)]) {
			c.Failf("head-content-not-fifo-prefix-after-"+op, "after %s: Head() (%d bytes) is not the prefix of the queued bytes in commit order", op, len(h))
		}
		c.Count("head_checks", 1)
	}

	steps := r.Range(20, 400)
	for step := 0; step < steps && !c.Failed(); step++ {
		op := r.Intn(10)
		switch {
		case op <= 2: // Claim
			var n int
			switch r.Intn(7) {
			case 0:
				n = 0
			case 1:
				n = 1
			case 2:
				n = size
			case 3:
				n = size + 1 + r.Intn(5)
				if r.Chance(1, 4) {
					n = math.MaxInt - []int{0, 1, total, size}[r.Intn(4)]
				}
			case 4:
				n = size - total
			default:
				n = r.Range(1, max(1, size/2))
			}
			wasEmpty := total == 0 && !haveClaim
			c.Logf("Claim(%d) [queued=%d claim-outstanding=%v]", n, total, haveClaim)
			s := buf.Claim(n)
			shape.WriteString("C")
			if len(s) > n {
				c.Failf("claim-longer-than-asked", "Claim(%d) returned %d bytes", n, len(s))
			}
			if wasEmpty && len(s) != min(n, size) {
				c.Failf("empty-buffer-short-claim", "empty buffer (nothing committed, nothing claimed) of size %d granted %d bytes for Claim(%d)", size, len(s), n)
			}
			if len(s) > 0 {
				off := sliceOff(window, s)
				if off < 0 || off+len(s) > size {
					c.Failf("claim-outside-buffer", "Claim(%d) returned [%d,%d) outside the %d-byte buffer", n, off, off+len(s), size)
					return
				}
				for i, ch := range fifo {
					if off < ch.hi && ch.lo < off+len(s) {
						c.Failf("claim-overlaps-queued-chunk", "Claim(%d) returned [%d,%d) overlapping queued chunk %d at [%d,%d)", n, off, off+len(s), i, ch.lo, ch.hi)
					}
				}
				c.Count("overlap_checks", len(fifo))
				if len(fifo) > 0 && off < fifo[len(fifo)-1].lo {
					wraps++
				}
				// scribble
				vf.GenFill(s, gen, genOff)
				genOff += len(s)
				claim, claimOff, haveClaim = s, off, true
				consumedSinceClaim = false
			} else {
				// every Claim call replaces the outstanding claim, also when it grants nothing
				claim, claimOff, haveClaim = nil, 0, false
			}
		case op <= 5: // Commit
			var m int
			cl := len(claim)
			switch r.Intn(6) {
			case 0:
				m = 0
			case 1:
				m = cl
			case 2:
				m = cl + 1 + r.Intn(4)
				if r.Chance(1, 4) {
					m = math.MaxInt - []int{0, 1, total, size}[r.Intn(4)]
				}
			case 3:
				m = 1
			default:
				m = r.Range(0, max(1, cl))
			}
			c.Logf("Commit(%d) [claim=%d bytes at %d, queued=%d]", m, cl, claimOff, total)
			got := buf.Commit(m)
			shape.WriteString("M")
			k := min(m, cl)
			if !haveClaim {
				k = 0
			}
			if len(got) != k {
				c.Failf("commit-returned-length", "Commit(%d) with a claim of %d returned %d bytes", m, cl, len(got))
			}
			if k > 0 {
				if off := sliceOff(window, got); off != claimOff {
					c.Failf("commit-returned-elsewhere", "Commit(%d) returned a chunk at %d, the claim was at %d", m, off, claimOff)
				}
				content := append([]byte(nil), claim[:k]...)
				if !bytes.Equal(got[:min(len(got), k)], content[:min(len(got), k)]) {
					c.Failf("commit-returned-content", "Commit(%d) returned bytes different from what was written into the claim", m)
				}
				fifo = append(fifo, c10Chunk{lo: claimOff, hi: claimOff + k, content: content})
				total += k
				if len(fifo) > 1 && claimOff < fifo[len(fifo)-2].lo {
					wrappedCommits++
				}
				if consumedSinceClaim {
					ccc++
				}
			}
			claim, haveClaim = nil, false
		case op <= 8: // Consume
			h := buf.Head()
			H := len(h)
			var n int
			firstLen := 0
			if len(fifo) > 0 {
				firstLen = len(fifo[0].content)
			}
			switch r.Intn(6) {
			case 0:
				n = 0
			case 1:
				n = firstLen
			case 2:
				n = H
			case 3:
				n = H + 1 + r.Intn(size+1)
				if r.Chance(1, 4) {
					n = math.MaxInt - []int{0, 1, total, size}[r.Intn(4)]
				}
			default:
				n = r.Range(0, max(1, H))
			}
			c.Logf("Consume(%d) [head region=%d, oldest chunk=%d, queued=%d]", n, H, firstLen, total)
			buf.Consume(n)
			shape.WriteString("X")
			// the implementation removes at most the head region; the statement does not define n larger
			// than that, so the model follows the implementation there (recorded as an assumption)
			k := min(n, H)
			k = min(k, total)
			rem := k
			for rem > 0 && len(fifo) > 0 {
				ch := &fifo[0]
				if rem >= len(ch.content) {
					rem -= len(ch.content)
					fifo = fifo[1:]
				} else {
					ch.content = ch.content[rem:]
					ch.lo += rem
					rem = 0
				}
			}
			total -= k
			if haveClaim && k > 0 {
				consumedSinceClaim = true
			}
		default:
			if r.Chance(1, 6) {
				c.Logf("Reset")
				buf.Reset()
				shape.WriteString("R")
				fifo, total, claim, haveClaim = nil, 0, nil, false
			} else {
				_ = buf.Head()
			}
		}
		verify("step")
		c.Count("operations", 1)
	}
	c.Count("wraps", wraps)
	c.Count("commits_into_wrapped_region", wrappedCommits)
	c.Count("claim_consume_commit_orders", ccc)
	c.Cover("size_class", sizeClass(size))
	if wraps > 0 {
		c.NonTrivial(fmt.Sprintf("%d/%x", size, vf.HashString(shape.String())))
	}
}

func sizeClass(n int) string {
	switch {
	case n <= 8:
		return fmt.Sprint(n)
	case n <= 64:
		return "9-64"
	default:
		return fmt.Sprint(n)
	}
}

func init() {
	register(&vf.Check{
		ID:        "C10",
		Technique: "reference-model monitor (FIFO of chunks with physical address ranges and contents) over random Claim/Commit/Consume/Head/Reset histories; address-arithmetic and content overlap oracle; checkptr build",
		Rule: "cases = random histories (20-400 calls) of Claim(n)/scribble/Commit(m <,=,> claim)/Consume(n <,=,> head region)/Head/Reset on buffers of size 1-64, 4096, 65536, with n from {0,1,free,size,size+k,random}; " +
			"non-trivial = the history wrapped (a claim was granted below the newest queued chunk) at least once; distinct = (size, call-sequence shape)",
		Assumptions: []string{
			"Consume(n) with n larger than the head region removes the head region only (implementation behaviour; the statement does not define it, the model follows the implementation)",
			"every Claim call replaces the outstanding claim (also one that grants zero bytes); the empty-buffer clause is only checked when nothing is committed and no claim is outstanding",
			"all sizes are non-negative",
		},
		Builds:      func(string) []string { return []string{"checkptr"} },
		NumCases:    func(tier, build string) int { return vf.Tiered(tier, 20000, 3000000) },
		Floor:       func(tier string) int { return vf.Tiered(tier, 500, 50000) },
		CaseTimeout: 30 * time.Second,
		Run:         runC10,
	})
}

func sliceAddr(s []byte) unsafe.Pointer { return unsafe.Pointer(unsafe.SliceData(s)) }
