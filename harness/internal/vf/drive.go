package vf

import (
	"bytes"
	"encoding/json"
	"fmt"
	"os"
	"os/exec"
	"path/filepath"
	"regexp"
	"sort"
	"strconv"
	"strings"
	"sync"
	"time"
)

type KnownFinding struct {
	Property string `json:"property"`
	Key      string `json:"key"`
	Status   string `json:"status"` // open | fixed
	Commit   string `json:"commit,omitempty"`
	What     string `json:"what"`
}

type DriveOpts struct {
	Root  string // /verif
	Tier  string
	Seed  uint64
	Only  int // replay one case (-1: all)
	Build string
}

func buildFlags(build string) []string {
	switch build {
	case "race":
		// checkptr is implied by -race and dies on the poller's packed epoll_event (by design): off.
		return []string{"-race", "-gcflags=all=-d=checkptr=0"}
	case "checkptr":
		return []string{"-gcflags=all=-d=checkptr"}
	}
	return nil
}

// BuildVariant (re)builds cmd/vcheck for the given sanitizer variant from /repo's current working tree.
func BuildVariant(root, build string) (string, error) {
	out := filepath.Join(root, ".build", "vcheck-"+build)
	args := []string{"build", "-tags", "verif", "-o", out}
	args = append(args, buildFlags(build)...)
	args = append(args, "./cmd/vcheck")
	cmd := exec.Command("go", args...)
	cmd.Dir = filepath.Join(root, "harness")
	cmd.Env = append(os.Environ(), "GOFLAGS=-mod=mod", "GOPROXY=off")
	b, err := cmd.CombinedOutput()
	if err != nil {
		return "", fmt.Errorf("go %s: %v\n%s", strings.Join(args, " "), err, b)
	}
	return out, nil
}

type childRun struct {
	build  string
	shard  int
	shards int
	from   int
	n      int
}

var raceFrameRe = regexp.MustCompile(`^\s+(\S+)\(\)$`)

// parseRaceLogs returns, per distinct report (deduplicated by the pair of innermost library frames of
// the two accesses, line numbers stripped), the number of occurrences and one full block.
func parseRaceLogs(dir, prefix string) (total int, withLib map[string]int, sample map[string]string) {
	withLib = map[string]int{}
	sample = map[string]string{}
	files, _ := filepath.Glob(filepath.Join(dir, prefix+"*"))
	for _, f := range files {
		b, err := os.ReadFile(f)
		if err != nil {
			continue
		}
		blocks := strings.Split(string(b), "==================")
		for _, blk := range blocks {
			if !strings.Contains(blk, "WARNING: DATA RACE") {
				continue
			}
			total++
			// split into access sections; take the innermost sonic frame of the first two sections
			var frames []string
			section := -1
			found := false
			for _, line := range strings.Split(blk, "\n") {
				t := strings.TrimSpace(line)
				if strings.HasPrefix(t, "Read at") || strings.HasPrefix(t, "Write at") ||
					strings.HasPrefix(t, "Previous read at") || strings.HasPrefix(t, "Previous write at") ||
					strings.HasPrefix(t, "Previous atomic") || strings.HasPrefix(t, "Atomic") {
					section++
					found = false
					continue
				}
				if strings.HasPrefix(t, "Goroutine ") {
					section = 99
				}
				if section >= 0 && section < 2 && !found {
					if m := raceFrameRe.FindStringSubmatch(line); m != nil && strings.Contains(m[1], "talostrading/sonic") {
						frames = append(frames, CleanFrame(m[1]))
						found = true
					}
				}
			}
			if len(frames) == 0 {
				continue
			}
			sort.Strings(frames)
			key := strings.Join(frames, "|")
			withLib[key]++
			if _, ok := sample[key]; !ok {
				sample[key] = trimStack(strings.TrimSpace(blk), 5000)
			}
		}
	}
	return
}

var fatalRe = regexp.MustCompile(`(?m)^(fatal error: .*|panic: .*|SIGSEGV.*|unexpected fault address.*)$`)

// Drive runs one property check end to end and returns the process exit code.
func Drive(chk *Check, o DriveOpts) int {
	start := time.Now()
	tier := o.Tier
	runDir := filepath.Join(o.Root, ".build", "run", chk.ID+"-"+tier)
	if o.Only >= 0 {
		runDir += "-replay" // a replay keeps the logs and goroutine dumps of the run that found the violation
	}
	_ = os.RemoveAll(runDir)
	if err := os.MkdirAll(runDir, 0o755); err != nil {
		fmt.Println("INCONCLUSIVE property=" + chk.ID + " reason=cannot-create-run-dir")
		return 2
	}
	var kf []KnownFinding
	if b, err := os.ReadFile(filepath.Join(o.Root, "known_findings.json")); err == nil {
		if err := json.Unmarshal(b, &kf); err != nil {
			fmt.Println("INCONCLUSIVE property=" + chk.ID + " reason=known_findings.json-unparsable")
			return 2
		}
	}

	builds := chk.Builds(tier)
	if o.Build != "" {
		builds = []string{o.Build}
	}
	bins := map[string]string{}
	for _, b := range builds {
		bin, err := BuildVariant(o.Root, b)
		if err != nil {
			fmt.Println(err)
			fmt.Printf("INCONCLUSIVE property=%s reason=build-failed-%s\n", chk.ID, b)
			return 2
		}
		bins[b] = bin
	}

	netns := os.Getenv("VERIF_NO_NETNS") == "" && exec.Command("unshare", "-n", "--", "/bin/sh", "-c", "ip link set lo up").Run() == nil
	agg := NewResult()
	var inconclusive []string
	var mu sync.Mutex
	sem := make(chan struct{}, 16)
	var wg sync.WaitGroup
	perBuild := map[string]int64{}
	children := 0

	runShard := func(build string, shard, shards, n int) {
		defer wg.Done()
		from := 0
		probeFirings := 0
		for attempt := 0; attempt < 40; attempt++ {
			sem <- struct{}{}
			tag := fmt.Sprintf("%s-%d-%d", build, shard, attempt)
			out := filepath.Join(runDir, tag+".json")
			to := chk.ChildTimeout(tier, build)
			args := []string{"-s", "QUIT", "-k", "20", strconv.Itoa(int(to.Seconds())), bins[build], "child",
				"--prop", chk.ID, "--tier", tier, "--build", build, "--seed", strconv.FormatUint(o.Seed, 10),
				"--shard", strconv.Itoa(shard), "--shards", strconv.Itoa(shards), "--from", strconv.Itoa(from),
				"--n", strconv.Itoa(n), "--out", out, "--only", strconv.Itoa(o.Only)}
			if netns {
				// every child gets its own network namespace: its own port space (no collisions with other
				// children, other test runs on the machine, or TIME_WAIT left-overs) and a multicast-capable lo
				args = append([]string{"-s", "QUIT", "-k", "20", strconv.Itoa(int(to.Seconds())), "unshare", "-n", "--", "/bin/sh", "-c",
					"ip link set lo up; ip link set lo multicast on; ip route add 224.0.0.0/4 dev lo; exec \"$@\"", "sh"}, args[5:]...)
			}
			cmd := exec.Command("timeout", args...)
			cmd.Dir = runDir
			so, _ := os.Create(filepath.Join(runDir, tag+".stdout"))
			se, _ := os.Create(filepath.Join(runDir, tag+".stderr"))
			cmd.Stdout, cmd.Stderr = so, se
			cmd.Env = append(os.Environ(), "VERIF_ROOT="+o.Root, "VERIF_RUNDIR="+runDir)
			if build == "race" {
				cmd.Env = append(cmd.Env, "GORACE=halt_on_error=0 log_path="+filepath.Join(runDir, "racelog-"+tag))
			}
			err := cmd.Run()
			so.Close()
			se.Close()
			<-sem
			code := 0
			if err != nil {
				if ee, ok := err.(*exec.ExitError); ok {
					code = ee.ExitCode()
				} else {
					code = -1
				}
			}
			res := NewResult()
			if b, rerr := os.ReadFile(out); rerr == nil {
				_ = json.Unmarshal(b, res)
			}
			last := -1
			if pb, perr := os.ReadFile(out + ".progress"); perr == nil {
				if v, cerr := strconv.Atoi(strings.TrimSpace(string(pb))); cerr == nil {
					last = v
				}
			}
			mu.Lock()
			children++
			agg.Merge(res)
			perBuild[build] += res.Evaluations
			mu.Unlock()
			if o.Only >= 0 {
				if b, _ := os.ReadFile(filepath.Join(runDir, tag+".stdout")); len(b) > 0 {
					fmt.Print(string(b))
				}
			}
			// race builds exit with 66 when reports were printed and halt_on_error=0: that is not a crash
			if res.Done && (code == 0 || code == 66) {
				return
			}
			if code == 124 || code == 137 {
				mu.Lock()
				inconclusive = append(inconclusive, fmt.Sprintf("watchdog-%s-shard%d-case%d", build, shard, last))
				mu.Unlock()
				return
			}
			if code == 3 {
				// a bounded-progress probe or the per-case watchdog fired; the violation is in the partial result.
				// Every such firing costs its full bound in wall-clock time: after four of them this shard stops (the
				// verdict is already a violation, exploring the rest would take hours).
				probeFirings++
				if probeFirings >= 4 {
					return
				}
				from = last + 1
				continue
			}
			// crash: classify from stderr
			eb, _ := os.ReadFile(filepath.Join(runDir, tag+".stderr"))
			estr := string(eb)
			msg := "child died with exit code " + strconv.Itoa(code)
			if m := fatalRe.FindString(estr); m != "" {
				msg = m
			}
			idx := strings.Index(estr, msg)
			stack := estr
			if idx >= 0 {
				stack = estr[idx:]
			}
			fn := firstSonicFrame(stack)
			v := Violation{Property: chk.ID, Seed: o.Seed, Case: last, Build: build, Tier: tier,
				Msg: msg, Stack: trimStack(stack, 6000)}
			if fn == "harness" || last < 0 {
				mu.Lock()
				inconclusive = append(inconclusive, fmt.Sprintf("harness-crash-%s-shard%d-case%d", build, shard, last))
				agg.Violations = append(agg.Violations, Violation{Property: chk.ID, Key: "harness-panic", Msg: msg, Case: last, Seed: o.Seed, Build: build, Stack: trimStack(stack, 3000)})
				mu.Unlock()
				return
			}
			kind := "fatal"
			if strings.HasPrefix(msg, "panic:") {
				kind = "panic"
			}
			v.Key = "crash-" + kind + "/" + fn
			mu.Lock()
			agg.Violations = append(agg.Violations, v)
			mu.Unlock()
			if res.Done {
				return
			}
			from = last + 1
		}
	}

	for _, b := range builds {
		n := chk.NumCases(tier, b)
		shards := chk.Shards(tier, b)
		if o.Only >= 0 {
			shards = 1
		}
		if shards > n {
			shards = n
		}
		if shards < 1 {
			shards = 1
		}
		for s := 0; s < shards; s++ {
			wg.Add(1)
			go runShard(b, s, shards, n)
		}
	}
	wg.Wait()

	// race reports
	raceTotal, raceLib, raceSample := 0, map[string]int{}, map[string]string{}
	for _, b := range builds {
		if b == "race" {
			raceTotal, raceLib, raceSample = parseRaceLogs(runDir, "racelog-")
			for key, cnt := range raceLib {
				agg.Violations = append(agg.Violations, Violation{
					Property: chk.ID, Key: "race/" + key, Seed: o.Seed, Case: -1, Build: "race", Tier: tier,
					Msg:   fmt.Sprintf("race detector: %d report(s) with library frames %s", cnt, key),
					Stack: raceSample[key],
				})
			}
		}
	}

	// classify violations
	known := map[string]KnownFinding{}
	for _, k := range kf {
		if k.Property == chk.ID && k.Status == "open" {
			known[k.Key] = k
		}
	}
	type vagg struct {
		first Violation
		count int
	}
	byKey := map[string]*vagg{}
	var order []string
	for _, v := range agg.Violations {
		if a, ok := byKey[v.Key]; ok {
			a.count++
		} else {
			byKey[v.Key] = &vagg{first: v, count: 1}
			order = append(order, v.Key)
		}
	}
	sort.Strings(order)
	exit := 0
	unknown := 0
	var knownMatched []map[string]any
	_ = os.MkdirAll(filepath.Join(o.Root, "replays"), 0o755)
	for _, key := range order {
		a := byKey[key]
		if strings.HasPrefix(key, "harness-setup") {
			// the harness could not build its scenario (resource exhaustion, environment): never a verdict on the code
			inconclusive = append(inconclusive, fmt.Sprintf("harness-setup-failed-x%d", a.count))
			fmt.Printf("HARNESS-SETUP property=%s occurrences=%d %s\n", chk.ID, a.count, oneLine(a.first.Msg))
			continue
		}
		if key == "harness-case-stuck" {
			inconclusive = append(inconclusive, "harness-case-stuck")
			fmt.Printf("HARNESS-STUCK property=%s case=%d %s\n", chk.ID, a.first.Case, oneLine(a.first.Msg))
			continue
		}
		if key == "harness-panic" {
			inconclusive = append(inconclusive, "harness-panic")
			fmt.Printf("HARNESS-PANIC property=%s case=%d %s\n%s\n", chk.ID, a.first.Case, a.first.Msg, a.first.Stack)
			continue
		}
		if k, ok := known[key]; ok {
			fmt.Printf("KNOWN-FINDING: property=%s key=%s occurrences=%d %s\n", chk.ID, key, a.count, k.What)
			knownMatched = append(knownMatched, map[string]any{"key": key, "occurrences": a.count, "example_case": a.first.Case})
			continue
		}
		unknown++
		exit = 1
		rp := filepath.Join(o.Root, "replays", fmt.Sprintf("%s-%s-seed%d-case%d-%s.json", chk.ID, tier, o.Seed, a.first.Case, sanitize(key)))
		b, _ := json.MarshalIndent(map[string]any{"violation": a.first, "occurrences": a.count}, "", " ")
		_ = os.WriteFile(rp, b, 0o644)
		fmt.Printf("VIOLATION property=%s replay=%s key=%s occurrences=%d msg=%s\n", chk.ID, rp, key, a.count, oneLine(a.first.Msg))
	}

	distinct := len(agg.Sigs)
	nontrivial := int64(0)
	for _, v := range agg.Sigs {
		nontrivial += v
	}
	if o.Only < 0 {
		if distinct < chk.Floor(tier) {
			inconclusive = append(inconclusive, fmt.Sprintf("distinct-nontrivial-%d-below-floor-%d", distinct, chk.Floor(tier)))
		}
		for _, rc := range chk.RequireCounters {
			if agg.Counters[rc] <= 0 {
				inconclusive = append(inconclusive, "counter-"+rc+"-is-zero")
			}
		}
	}

	// evidence
	sets := map[string]any{}
	for name, set := range agg.Sets {
		keys := SortedKeys(set)
		if len(keys) > 60 {
			sets[name] = map[string]any{"distinct": len(keys), "first": keys[:60]}
		} else {
			sets[name] = map[string]any{"distinct": len(keys), "elements": set}
		}
	}
	samples := agg.Samples
	if len(samples) == 0 {
		samples = []any{"(no sample recorded)"}
	}
	cov := map[string]any{
		"evaluations":          agg.Evaluations,
		"distinct_nontrivial":  distinct,
		"nontrivial_cases":     nontrivial,
		"rule":                 chk.Rule,
		"samples":              samples,
		"counters":             agg.Counters,
		"maxima":               agg.Maxes,
		"minima":               agg.Mins,
		"coverage_sets":        sets,
		"builds":               builds,
		"evaluations_by_build": perBuild,
		"child_processes":      children,
		"children_in_private_network_namespace": netns,
		"exhaustive":           false,
		"known_findings":       knownMatched,
		"inconclusive_reasons": inconclusive,
	}
	for _, b := range builds {
		if b == "race" {
			cov["race_reports_total"] = raceTotal
			cov["race_reports_distinct_with_library_frames"] = len(raceLib)
		}
	}
	ev := map[string]any{
		"property_id": chk.ID, "tier": tier, "seed": int64(o.Seed), "level": chk.Level,
		"coverage": cov, "assumptions": chk.Assumptions, "wall_s": time.Since(start).Seconds(),
		"violations": unknown,
	}
	if o.Only < 0 {
		_ = os.MkdirAll(filepath.Join(o.Root, "evidence"), 0o755)
		b, _ := json.MarshalIndent(ev, "", " ")
		_ = os.WriteFile(filepath.Join(o.Root, "evidence", chk.ID+".json"), b, 0o644)
	}
	fmt.Printf("SUMMARY property=%s tier=%s seed=%d evaluations=%d distinct_nontrivial=%d violations=%d known=%d wall=%.1fs\n",
		chk.ID, tier, o.Seed, agg.Evaluations, distinct, unknown, len(knownMatched), time.Since(start).Seconds())
	if exit == 1 {
		return 1
	}
	if len(inconclusive) > 0 {
		fmt.Printf("INCONCLUSIVE property=%s reason=%s\n", chk.ID, strings.Join(inconclusive, ","))
		return 2
	}
	return 0
}

func sanitize(s string) string {
	var b bytes.Buffer
	for _, ch := range s {
		if (ch >= 'a' && ch <= 'z') || (ch >= 'A' && ch <= 'Z') || (ch >= '0' && ch <= '9') || ch == '-' || ch == '_' {
			b.WriteRune(ch)
		} else {
			b.WriteByte('_')
		}
	}
	out := b.String()
	if len(out) > 80 {
		out = out[:80]
	}
	return out
}

func oneLine(s string) string {
	s = strings.ReplaceAll(s, "\n", " ")
	if len(s) > 300 {
		s = s[:300] + "…"
	}
	return s
}
