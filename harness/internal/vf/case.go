package vf

import (
	"encoding/json"
	"fmt"
	"os"
	"runtime"
	"sort"
	"strings"
	"sync"
	"time"
)

// Check describes one property's monitor.
type Check struct {
	ID          string
	Level       string // exploration | fault_enumeration
	Technique   string
	Rule        string
	Assumptions []string
	// Build selects the sanitizer variant(s) the cases run under: "plain", "race" (checkptr off, the
	// poller's packed epoll_event is misaligned by design) or "checkptr".
	Builds func(tier string) []string
	// NumCases is the number of case indices for (tier, build). Cases are functions of (seed, index).
	NumCases func(tier, build string) int
	// Shards is the number of parallel child processes.
	Shards func(tier, build string) int
	// Floor is the minimum number of distinct non-trivial cases below which a run is inconclusive.
	Floor func(tier string) int
	// Run executes one case.
	Run func(c *Case)
	// ChildTimeout is the generous wall-clock watchdog per child; its firing is inconclusive.
	ChildTimeout func(tier, build string) time.Duration
	// RaceFrames: when running under the race build, a report with a frame containing one of these
	// substrings is a violation (default: "talostrading/sonic").
	RequireCounters []string // counters that must be > 0 at the end or the run is inconclusive
	// CaseTimeout bounds one case (default 120 s for work that takes milliseconds). A case that does not return
	// is the refuting observation "a library call never returned" (every property excludes that); the child
	// records it with the script so far and exits with code 3, the driver restarts after that case.
	CaseTimeout time.Duration
}

type Violation struct {
	Property string   `json:"property"`
	Key      string   `json:"key"`
	Msg      string   `json:"msg"`
	Seed     uint64   `json:"seed"`
	Case     int      `json:"case"`
	Build    string   `json:"build"`
	Tier     string   `json:"tier"`
	Script   []string `json:"script,omitempty"`
	Stack    string   `json:"stack,omitempty"`
}

// Result is what one child process reports.
type Result struct {
	Evaluations int64             `json:"evaluations"`
	Counters    map[string]int64  `json:"counters"`
	Maxes       map[string]int64  `json:"maxes"`
	Mins        map[string]int64  `json:"mins"`
	Sigs        map[string]int64  `json:"sigs"` // signature hash -> count, only non-trivial cases
	Sets        map[string]map[string]int64 `json:"sets"` // named sets of small strings (coverage tables)
	Samples     []any             `json:"samples"`
	Violations  []Violation       `json:"violations"`
	Done        bool              `json:"done"`
	LastCase    int               `json:"last_case"`
}

func NewResult() *Result {
	return &Result{
		Counters: map[string]int64{}, Maxes: map[string]int64{}, Mins: map[string]int64{},
		Sigs: map[string]int64{}, Sets: map[string]map[string]int64{},
	}
}

func (r *Result) Merge(o *Result) {
	r.Evaluations += o.Evaluations
	for k, v := range o.Counters {
		r.Counters[k] += v
	}
	for k, v := range o.Maxes {
		if cur, ok := r.Maxes[k]; !ok || v > cur {
			r.Maxes[k] = v
		}
	}
	for k, v := range o.Mins {
		if cur, ok := r.Mins[k]; !ok || v < cur {
			r.Mins[k] = v
		}
	}
	for k, v := range o.Sigs {
		r.Sigs[k] += v
	}
	for name, set := range o.Sets {
		if r.Sets[name] == nil {
			r.Sets[name] = map[string]int64{}
		}
		for k, v := range set {
			r.Sets[name][k] += v
		}
	}
	if len(r.Samples) < 6 {
		r.Samples = append(r.Samples, o.Samples...)
		if len(r.Samples) > 6 {
			r.Samples = r.Samples[:6]
		}
	}
	r.Violations = append(r.Violations, o.Violations...)
}

// Case is the context handed to a check for one generated case.
type Case struct {
	Prop  string
	Tier  string
	Build string
	Seed  uint64
	Index int
	Rng   *Rand

	mu       sync.Mutex
	script   []string
	dropped  int
	res      *Result
	sig      string
	sample   any
	failKeys map[string]bool
	softKeys map[string]bool
	runner   *Runner
}

const maxScript = 600

// Logf appends a step to the case's script (the witness written on a violation and the sample shown in
// the evidence).
func (c *Case) Logf(format string, args ...any) {
	c.mu.Lock()
	defer c.mu.Unlock()
	if len(c.script) >= maxScript {
		// keep head and tail
		copy(c.script[maxScript/2:], c.script[maxScript/2+1:])
		c.script = c.script[:len(c.script)-1]
		c.dropped++
	}
	c.script = append(c.script, fmt.Sprintf(format, args...))
}

func (c *Case) Script() []string {
	c.mu.Lock()
	defer c.mu.Unlock()
	out := append([]string(nil), c.script...)
	if c.dropped > 0 {
		out = append(out, fmt.Sprintf("(… %d middle steps elided)", c.dropped))
	}
	return out
}

// Failf records a violation. key identifies the specific failing call site / input class / history
// shape; it is what known_findings.json is matched against.
func (c *Case) Failf(key, format string, args ...any) {
	c.mu.Lock()
	if c.failKeys == nil {
		c.failKeys = map[string]bool{}
	}
	if c.failKeys[key] {
		c.mu.Unlock()
		return
	}
	c.failKeys[key] = true
	c.mu.Unlock()
	v := Violation{
		Property: c.Prop, Key: key, Msg: fmt.Sprintf(format, args...), Seed: c.Seed, Case: c.Index,
		Build: c.Build, Tier: c.Tier, Script: c.Script(),
	}
	c.runner.addViolation(v)
}

// SoftFailf records a violation like Failf but does not make Failed() true: the case goes on, so that a
// (known) finding at one place does not hide what the rest of the case would observe.
func (c *Case) SoftFailf(key, format string, args ...any) {
	c.mu.Lock()
	if c.softKeys == nil {
		c.softKeys = map[string]bool{}
	}
	if c.softKeys[key] {
		c.mu.Unlock()
		return
	}
	c.softKeys[key] = true
	c.mu.Unlock()
	v := Violation{
		Property: c.Prop, Key: key, Msg: fmt.Sprintf(format, args...), Seed: c.Seed, Case: c.Index,
		Build: c.Build, Tier: c.Tier, Script: c.Script(),
	}
	c.runner.addViolation(v)
}

func (c *Case) Failed() bool {
	c.mu.Lock()
	defer c.mu.Unlock()
	return len(c.failKeys) > 0
}

func (c *Case) Count(name string, n int) {
	c.runner.mu.Lock()
	c.res.Counters[name] += int64(n)
	c.runner.mu.Unlock()
}

func (c *Case) Max(name string, v int64) {
	c.runner.mu.Lock()
	if cur, ok := c.res.Maxes[name]; !ok || v > cur {
		c.res.Maxes[name] = v
	}
	c.runner.mu.Unlock()
}

func (c *Case) Min(name string, v int64) {
	c.runner.mu.Lock()
	if cur, ok := c.res.Mins[name]; !ok || v < cur {
		c.res.Mins[name] = v
	}
	c.runner.mu.Unlock()
}

// Cover adds an element to a named coverage set (small-cardinality strings only).
func (c *Case) Cover(set, elem string) {
	c.runner.mu.Lock()
	m := c.res.Sets[set]
	if m == nil {
		m = map[string]int64{}
		c.res.Sets[set] = m
	}
	if len(m) < 20000 || m[elem] > 0 {
		m[elem]++
	}
	c.runner.mu.Unlock()
}

// NonTrivial marks the case as non-trivial by the check's rule, with the signature used to count
// distinct ones.
func (c *Case) NonTrivial(sig string) { c.sig = sig }

// Sample sets what is shown for this case in the evidence (default: the script).
func (c *Case) Sample(v any) { c.sample = v }

// Bounded runs fn as a bounded-progress probe: fn not returning within d IS the refuting observation
// (used only for the few liveness clauses restated as bounded progress; d is seconds for work that takes
// microseconds). The violation is recorded, the partial result flushed and the child exits with code 3.
func (c *Case) Bounded(key string, d time.Duration, fn func()) {
	done := make(chan struct{})
	go func() {
		t := time.NewTimer(d)
		defer t.Stop()
		select {
		case <-done:
		case <-t.C:
			buf := make([]byte, 1<<16)
			n := runtime.Stack(buf, true)
			c.mu.Lock()
			script := append([]string(nil), c.script...)
			c.mu.Unlock()
			v := Violation{
				Property: c.Prop, Key: key, Seed: c.Seed, Case: c.Index, Build: c.Build, Tier: c.Tier,
				Msg:    fmt.Sprintf("bounded-progress probe did not return within %v", d),
				Script: script, Stack: trimStack(string(buf[:n]), 60000),
			}
			c.runner.addViolation(v)
			c.runner.flush(false)
			os.Exit(3)
		}
	}()
	fn()
	close(done)
}

func trimStack(s string, n int) string {
	if len(s) > n {
		return s[:n] + "\n…"
	}
	return s
}

// Runner drives the cases of one child process.
type Runner struct {
	mu       sync.Mutex
	res      *Result
	out      string
	progress *os.File
}

func (r *Runner) addViolation(v Violation) {
	r.mu.Lock()
	defer r.mu.Unlock()
	if len(r.res.Violations) < 200 {
		r.res.Violations = append(r.res.Violations, v)
	}
}

func (r *Runner) flush(done bool) {
	r.mu.Lock()
	defer r.mu.Unlock()
	r.res.Done = done
	b, err := json.Marshal(r.res)
	if err != nil {
		fmt.Fprintln(os.Stderr, "vf: cannot marshal result:", err)
		os.Exit(4)
	}
	tmp := r.out + ".tmp"
	if err := os.WriteFile(tmp, b, 0o644); err != nil {
		fmt.Fprintln(os.Stderr, "vf: cannot write result:", err)
		os.Exit(4)
	}
	_ = os.Rename(tmp, r.out)
}

// firstSonicFrame extracts the innermost frame that belongs either to the library or to the harness
// from a stack trace. A panic raised in library code (or in the standard library called from it) is keyed
// by the library function; a panic raised in harness code is a broken check, not a violation.
func firstSonicFrame(stack string) string {
	for _, line := range strings.Split(stack, "\n") {
		if strings.HasPrefix(line, "\t") || strings.HasPrefix(line, " ") {
			continue
		}
		line = strings.TrimSpace(line)
		if strings.HasPrefix(line, "verif/") || strings.HasPrefix(line, "main.") {
			return "harness"
		}
		if strings.HasPrefix(line, "github.com/talostrading/sonic") {
			return CleanFrame(line)
		}
	}
	return "harness"
}

// CleanFrame turns "github.com/talostrading/sonic/codec/websocket.(*Stream).Flush.func1(0x...)" into
// "codec/websocket.(*Stream).Flush".
func CleanFrame(line string) string {
	if i := strings.LastIndex(line, "("); i > 0 && !strings.HasSuffix(line[:i], ".") {
		// cut the argument list, but not the receiver "(*T)"
		if j := strings.LastIndex(line, ")"); j > i {
			line = line[:i]
		}
	}
	line = strings.TrimPrefix(line, "github.com/talostrading/sonic")
	line = strings.TrimPrefix(line, "/")
	line = strings.TrimPrefix(line, ".")
	line = strings.ReplaceAll(line, "[...]", "")
	for {
		i := strings.LastIndex(line, ".func")
		if i < 0 {
			break
		}
		rest := line[i+5:]
		ok := len(rest) > 0
		for _, ch := range rest {
			if (ch < '0' || ch > '9') && ch != '.' {
				ok = false
			}
		}
		if !ok {
			break
		}
		line = line[:i]
	}
	return line
}

// RunChild executes cases [from, n) with index%shards == shard.
func RunChild(chk *Check, tier, build string, seed uint64, shard, shards, from, n int, out string, only int) {
	r := &Runner{res: NewResult(), out: out}
	pf, err := os.OpenFile(out+".progress", os.O_CREATE|os.O_WRONLY|os.O_TRUNC, 0o644)
	if err != nil {
		fmt.Fprintln(os.Stderr, "vf: cannot open progress file:", err)
		os.Exit(4)
	}
	r.progress = pf
	propSeed := Mix(seed, HashString(chk.ID))
	lastFlush := time.Now()
	var curMu sync.Mutex
	var cur *Case
	var curStart time.Time
	caseTimeout := chk.CaseTimeout
	if caseTimeout == 0 {
		caseTimeout = 120 * time.Second
	}
	go func() {
		for {
			time.Sleep(time.Second)
			curMu.Lock()
			c, st := cur, curStart
			curMu.Unlock()
			if c == nil || time.Since(st) < caseTimeout {
				continue
			}
			buf := make([]byte, 1<<16)
			n := runtime.Stack(buf, true)
			sc := c.Script()
			last := ""
			if len(sc) > 0 {
				last = sc[len(sc)-1]
			}
			fn := firstSonicFrame(string(buf[:n]))
			key := "call-never-returned/" + fn
			if fn == "harness" {
				key = "harness-case-stuck"
			}
			r.addViolation(Violation{Property: c.Prop, Key: key, Seed: c.Seed, Case: c.Index, Build: c.Build, Tier: c.Tier,
				Msg:    fmt.Sprintf("the case did not finish within %v; last step logged: %s", caseTimeout, last),
				Script: sc, Stack: trimStack(string(buf[:n]), 6000)})
			r.flush(false)
			os.Exit(3)
		}
	}()
	for i := from; i < n; i++ {
		if only >= 0 {
			if i != only {
				continue
			}
		} else if i%shards != shard {
			continue
		}
		_, _ = pf.WriteAt([]byte(fmt.Sprintf("%-12d\n", i)), 0)
		c := &Case{
			Prop: chk.ID, Tier: tier, Build: build, Seed: seed, Index: i,
			Rng: NewRand(Mix(propSeed, uint64(i))), res: r.res, runner: r,
		}
		curMu.Lock()
		cur, curStart = c, time.Now()
		curMu.Unlock()
		runOne(chk, c)
		curMu.Lock()
		cur = nil
		curMu.Unlock()
		r.mu.Lock()
		r.res.Evaluations++
		r.res.LastCase = i
		if c.sig != "" {
			// signatures are stored as 40-bit hashes; beyond 400k distinct ones per child further new signatures
			// are not counted (distinct_nontrivial is then a lower bound)
			h := fmt.Sprintf("%010x", HashString(c.sig)&0xffffffffff)
			if len(r.res.Sigs) < 400000 || r.res.Sigs[h] > 0 {
				r.res.Sigs[h]++
			}
		}
		if len(r.res.Samples) < 2 && shard == 0 && (c.sig != "" || only >= 0) {
			var s any = c.sample
			if s == nil {
				sc := c.Script()
				if len(sc) > 60 {
					sc = append(sc[:60:60], fmt.Sprintf("(… %d more steps)", len(c.script)-60))
				}
				s = map[string]any{"case": i, "signature": c.sig, "script": sc}
			}
			r.res.Samples = append(r.res.Samples, s)
		}
		r.mu.Unlock()
		if only >= 0 {
			for _, l := range c.Script() {
				fmt.Println("  ", l)
			}
		}
		if time.Since(lastFlush) > 5*time.Second {
			r.flush(false)
			lastFlush = time.Now()
		}
	}
	r.flush(true)
}

func runOne(chk *Check, c *Case) {
	defer func() {
		if p := recover(); p != nil {
			buf := make([]byte, 1<<15)
			n := runtime.Stack(buf, false)
			stack := string(buf[:n])
			// skip the frames of the deferred function itself
			if i := strings.Index(stack, "panic("); i >= 0 {
				stack = stack[i:]
			}
			fn := firstSonicFrame(stack)
			key := "panic/" + fn
			if fn == "harness" {
				key = "harness-panic"
			}
			v := Violation{
				Property: c.Prop, Key: key, Msg: fmt.Sprintf("panic: %v", p), Seed: c.Seed, Case: c.Index,
				Build: c.Build, Tier: c.Tier, Script: c.Script(), Stack: trimStack(stack, 4000),
			}
			c.runner.addViolation(v)
		}
	}()
	chk.Run(c)
}

// SortedKeys is a helper for deterministic output.
func SortedKeys[V any](m map[string]V) []string {
	ks := make([]string, 0, len(m))
	for k := range m {
		ks = append(ks, k)
	}
	sort.Strings(ks)
	return ks
}
