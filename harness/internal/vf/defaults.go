package vf

import "time"

// Fill sets defaults for optional Check fields.
func (c *Check) Fill() *Check {
	if c.Level == "" {
		c.Level = "exploration"
	}
	if c.Builds == nil {
		c.Builds = func(string) []string { return []string{"plain"} }
	}
	if c.Shards == nil {
		c.Shards = func(tier, build string) int {
			if tier == "thorough" {
				return 16
			}
			return 8
		}
	}
	if c.Floor == nil {
		c.Floor = func(string) int { return 2 }
	}
	if c.ChildTimeout == nil {
		c.ChildTimeout = func(tier, build string) time.Duration {
			if tier == "thorough" {
				return 40 * time.Minute
			}
			return 8 * time.Minute
		}
	}
	return c
}

// Tiered returns q for the quick tier and t for the thorough one.
func Tiered(tier string, q, t int) int {
	if tier == "thorough" {
		return t
	}
	return q
}
