// Package vf is the small framework shared by all runtime monitors: deterministic PRNG, per-case
// context (script log, counters, signatures, violations), child-process protocol and result files.
package vf

// Rand is a splitmix64 generator. Every case owns one, seeded from (VERIF_SEED, property, case index),
// so the list of cases is a function of the seed and the tier only - never of elapsed time.
type Rand struct{ s uint64 }

func NewRand(seed uint64) *Rand { return &Rand{s: seed} }

func Mix(a, b uint64) uint64 {
	z := a ^ (b+0x9e3779b97f4a7c15)*0xbf58476d1ce4e5b9
	z ^= z >> 31
	z *= 0x94d049bb133111eb
	z ^= z >> 29
	return z
}

func HashString(s string) uint64 {
	h := uint64(1469598103934665603)
	for i := 0; i < len(s); i++ {
		h ^= uint64(s[i])
		h *= 1099511628211
	}
	return h
}

func (r *Rand) U64() uint64 {
	r.s += 0x9e3779b97f4a7c15
	z := r.s
	z = (z ^ (z >> 30)) * 0xbf58476d1ce4e5b9
	z = (z ^ (z >> 27)) * 0x94d049bb133111eb
	return z ^ (z >> 31)
}

// Intn returns a value in [0, n). n <= 0 yields 0.
func (r *Rand) Intn(n int) int {
	if n <= 0 {
		return 0
	}
	return int(r.U64() % uint64(n))
}

// Range returns a value in [lo, hi].
func (r *Rand) Range(lo, hi int) int {
	if hi <= lo {
		return lo
	}
	return lo + r.Intn(hi-lo+1)
}

func (r *Rand) Bool() bool { return r.U64()&1 == 1 }

// Chance is true with probability num/den.
func (r *Rand) Chance(num, den int) bool { return r.Intn(den) < num }

func (r *Rand) Pick(xs []int) int { return xs[r.Intn(len(xs))] }

func (r *Rand) Bytes(n int) []byte {
	b := make([]byte, n)
	for i := 0; i < n; i += 8 {
		v := r.U64()
		for j := 0; j < 8 && i+j < n; j++ {
			b[i+j] = byte(v >> (8 * j))
		}
	}
	return b
}

// Gen is the position-dependent byte generator g(stream, offset): any loss, duplication, reordering or
// invented byte in a stream shows up at the exact offset.
func Gen(stream uint64, off int) byte {
	return byte(Mix(stream, uint64(off)) >> 17)
}

func GenFill(b []byte, stream uint64, off int) {
	for i := range b {
		b[i] = Gen(stream, off+i)
	}
}
