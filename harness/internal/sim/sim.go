// Package sim is the event-loop workload engine shared by C01, C03, C14 (and C02): one sonic.IO, a set
// of objects whose peer ends are raw descriptors, a shadow ledger of every asynchronous operation
// (recorded before the library is called, completed inside the wrapped callback) and the kernel-side
// readiness oracle. Everything runs on one goroutine: peer actions, starts, cancels, closes and polls are
// steps of one deterministic script.
package sim

import (
	"errors"
	"fmt"
	"net"
	"os"
	"path/filepath"
	"syscall"
	"time"

	"github.com/talostrading/sonic"
	"github.com/talostrading/sonic/sonicerrors"
	"github.com/talostrading/sonic/sonicopts"
	"golang.org/x/sys/unix"

	"verif/internal/rawpeer"
	"verif/internal/vf"
)

type Kind int

const (
	KConnDialed Kind = iota
	KConnAccepted
	KAdapter
	KFifoR
	KFifoW
	KUDP
	KListener
	KRegFile
	KConnUDP // sonic.Dial("udp"): a connected datagram socket behind the stream-like Conn interface
	NumKinds
)

func (k Kind) String() string {
	return [...]string{"conn-dialed", "conn-accepted", "adapter", "fifo-r", "fifo-w", "udp", "listener", "regular-file", "conn-udp"}[k]
}

// Behaviour of a completion handler.
type Behaviour int

const (
	BNone Behaviour = iota
	BReissue
	BCancelOther
	BCloseOther
	BCancelRestartOther
	BCloseSelf
	BCancelSelf
	BDrainOther // reads everything the kernel holds for another object with non-blocking read(2)s on its descriptor
	NumBehaviours
)

func (b Behaviour) String() string {
	return [...]string{"none", "reissue", "cancel-other", "close-other", "cancel-restart-other", "close-self", "cancel-self", "drain-other"}[b]
}

type Obj struct {
	ID   int
	Kind Kind
	FD   sonic.FileDescriptor
	PC   sonic.PacketConn
	LN   sonic.Listener
	Raw  int
	Peer int // raw peer descriptor (-1 once closed)
	// listener: raw client sockets that connected and have not been accepted yet
	Backlog  []int
	PeerPort int
	Closing  bool
	Closed   bool // Close() has returned
	Rd, Wr   *Op
	keep     any
	Small    bool // shrunken socket buffers
	path     string
	LnPort   int
	PeerGone bool
}

// NetConn returns the net.Conn under an adapter object (nil otherwise).
func (o *Obj) NetConn() net.Conn {
	nc, _ := o.keep.(net.Conn)
	return nc
}

func (o *Obj) String() string { return fmt.Sprintf("%s#%d", o.Kind, o.ID) }

type Op struct {
	ID      int
	O       *Obj
	Kind    string // read readall write writeall accept readfrom writeto
	Dir     int    // 0 read, 1 write
	All     bool
	Calls   int
	Err     error
	N       int
	Started bool // the start call has returned
	// Deferred: the start call returned without the callback having run
	Deferred     bool
	Forced       bool
	ExpectCancel bool
	ReadyCycles  int
	LastRevents  int16
	Beh          Behaviour
	Target       *Obj
	Buf          []byte
	ViaCancel    bool
	Chain        int // remaining re-issues (C14 chains)
	OnDone       func(op *Op)
	Accepted     sonic.Conn
}

func (op *Op) InFlight() bool { return op.Calls == 0 && !op.O.Closed && !op.O.Closing }

type World struct {
	C   *vf.Case
	R   *vf.Rand
	IOC *sonic.IO
	Dir string

	Objs   []*Obj
	Ops    []*Op
	nextID int

	Depth, MaxDepth int
	Tick            int
	HandlersInPoll  int
	TopLevel        bool

	// shadow counts for C03
	ArmedTimers int
	ArmedShort  int
	PostsQueued int
	Timers      []*Tmr

	// stats
	Batches, BatchesGE2, BatchesStale int
	ByPath                             map[string]int
	Shape                              []string
	NextOnDone                         func(op *Op) // installed on the next operation started (before the library is called)
	LostCheck                          bool         // enable the poll(2) lost-completion oracle
	Keep                               []any
	readyBefore                        int
}

var keepForever []any // net.Conn objects whose descriptor an adapter closed: never let their finalizer run

func NewWorld(c *vf.Case) (*World, error) {
	ioc, err := sonic.NewIO()
	if err != nil {
		return nil, err
	}
	dir, err := os.MkdirTemp("", "vsim")
	if err != nil {
		return nil, err
	}
	return &World{C: c, R: c.Rng, IOC: ioc, Dir: dir, ByPath: map[string]int{}, TopLevel: true, LostCheck: true}, nil
}

// Teardown closes everything the world still holds.
func (w *World) Teardown() {
	for _, o := range w.Objs {
		w.closePeer(o)
		for _, fd := range o.Backlog {
			rawpeer.Reset(fd)
		}
		o.Backlog = nil
		if !o.Closed && !o.Closing {
			w.rawClose(o)
		}
	}
	w.CloseTimers()
	_ = w.IOC.Close()
	_ = os.RemoveAll(w.Dir)
}

func (w *World) rawClose(o *Obj) {
	o.Closing = true
	// TCP: close with an RST so that neither end lingers in TIME_WAIT - thousands of scripts per second would
	// otherwise exhaust the ephemeral port range (the library only sees its own close(2), as before)
	if o.Kind == KConnDialed || o.Kind == KConnAccepted || o.Kind == KAdapter {
		_ = syscall.SetsockoptLinger(o.Raw, syscall.SOL_SOCKET, syscall.SO_LINGER, &syscall.Linger{Onoff: 1, Linger: 0})
	}
	switch {
	case o.FD != nil:
		_ = o.FD.Close()
	case o.PC != nil:
		_ = o.PC.Close()
	case o.LN != nil:
		_ = o.LN.Close()
	}
	o.Closed = true
}

func (w *World) closePeer(o *Obj) {
	if o.Peer >= 0 {
		if o.Kind == KConnDialed || o.Kind == KConnAccepted || o.Kind == KAdapter {
			rawpeer.Reset(o.Peer)
		} else {
			syscall.Close(o.Peer)
		}
		o.Peer = -1
	}
}

func (w *World) add(o *Obj) *Obj {
	o.ID = len(w.Objs)
	w.Objs = append(w.Objs, o)
	w.C.Logf("  new %s (fd %d, peer fd %d, small buffers %v)", o, o.Raw, o.Peer, o.Small)
	return o
}

// ---------------------------------------------------------------- object constructors

func (w *World) NewDialed(small bool) (*Obj, error) {
	lfd, port, err := rawpeer.Listen4()
	if err != nil {
		return nil, err
	}
	defer syscall.Close(lfd)
	conn, err := sonic.Dial(w.IOC, "tcp", rawpeer.AddrOf(port))
	if err != nil {
		return nil, err
	}
	peer, _, err := rawpeer.Accept(lfd)
	if err != nil {
		conn.Close()
		return nil, err
	}
	o := &Obj{Kind: KConnDialed, FD: conn, Raw: conn.RawFd(), Peer: peer, Small: small}
	if small {
		rawpeer.SetBufs(o.Raw, 8192, 0)
		rawpeer.SetBufs(peer, 8192, 0)
	}
	return w.add(o), nil
}

func (w *World) NewListener() (*Obj, error) {
	ln, err := sonic.Listen(w.IOC, "tcp", "127.0.0.1:0", sonicopts.Nonblocking(true))
	if err != nil {
		return nil, err
	}
	sa, err := syscall.Getsockname(ln.RawFd())
	if err != nil {
		ln.Close()
		return nil, err
	}
	o := &Obj{Kind: KListener, LN: ln, Raw: ln.RawFd(), Peer: -1, LnPort: sa.(*syscall.SockaddrInet4).Port}
	return w.add(o), nil
}

// PeerConnect makes a raw client connect to a listener object; the socket waits in its backlog.
func (w *World) PeerConnect(l *Obj) error {
	fd, _, err := rawpeer.Connect4(l.LnPort)
	if err != nil {
		return err
	}
	l.Backlog = append(l.Backlog, fd)
	return nil
}

// adoptAccepted wraps a conn accepted from listener l; its raw peer is the oldest backlog socket whose
// local port equals the conn's remote port.
func (w *World) adoptAccepted(l *Obj, c sonic.Conn) *Obj {
	o := &Obj{Kind: KConnAccepted, FD: c, Raw: c.RawFd(), Peer: -1}
	rport := 0
	if ta, ok := c.RemoteAddr().(*net.TCPAddr); ok && ta != nil {
		rport = ta.Port
	}
	for i, fd := range l.Backlog {
		sa, err := syscall.Getsockname(fd)
		if err == nil {
			w.C.Logf("    (adopt: conn remote port %d, backlog fd %d has local port %d)", rport, fd, sa.(*syscall.SockaddrInet4).Port)
		}
		if err == nil && sa.(*syscall.SockaddrInet4).Port == rport {
			o.Peer = fd
			l.Backlog = append(l.Backlog[:i:i], l.Backlog[i+1:]...)
			break
		}
	}
	return w.add(o)
}

func (w *World) NewAccepted(small bool) (*Obj, error) {
	l, err := w.NewListener()
	if err != nil {
		return nil, err
	}
	if err := w.PeerConnect(l); err != nil {
		return nil, err
	}
	var conn sonic.Conn
	for i := 0; i < 2000; i++ {
		conn, err = l.LN.Accept()
		if err == nil {
			break
		}
		if !errors.Is(err, sonicerrors.ErrWouldBlock) {
			return nil, err
		}
		rawpeer.WaitReadable(l.Raw, 5)
	}
	if conn == nil {
		return nil, fmt.Errorf("accept never succeeded: %v", err)
	}
	o := w.adoptAccepted(l, conn)
	o.Small = small
	if small && o.Peer >= 0 {
		rawpeer.SetBufs(o.Raw, 8192, 0)
		rawpeer.SetBufs(o.Peer, 8192, 0)
	}
	// the helper listener is closed and dropped from the world
	w.rawClose(l)
	return o, nil
}

func (w *World) NewAdapter(small bool) (*Obj, error) {
	lfd, port, err := rawpeer.Listen4()
	if err != nil {
		return nil, err
	}
	defer syscall.Close(lfd)
	nc, err := net.DialTimeout("tcp", rawpeer.AddrOf(port), 5*time.Second)
	if err != nil {
		return nil, err
	}
	peer, _, err := rawpeer.Accept(lfd)
	if err != nil {
		nc.Close()
		return nil, err
	}
	keepForever = append(keepForever, nc)
	var ad *sonic.AsyncAdapter
	var aerr error
	sonic.NewAsyncAdapter(w.IOC, nc.(*net.TCPConn), nc, func(e error, a *sonic.AsyncAdapter) { ad, aerr = a, e })
	if aerr != nil || ad == nil {
		syscall.Close(peer)
		return nil, fmt.Errorf("adapter: %v", aerr)
	}
	o := &Obj{Kind: KAdapter, FD: ad, Raw: ad.RawFd(), Peer: peer, keep: nc, Small: small}
	if small {
		rawpeer.SetBufs(o.Raw, 8192, 0)
		rawpeer.SetBufs(peer, 8192, 0)
	}
	return w.add(o), nil
}

func (w *World) NewFifo(reader bool) (*Obj, error) {
	path := filepath.Join(w.Dir, fmt.Sprintf("fifo%d", len(w.Objs)))
	if err := syscall.Mkfifo(path, 0o600); err != nil {
		return nil, err
	}
	defer os.Remove(path)
	var f sonic.File
	var peer int
	var err error
	if reader {
		f, err = sonic.Open(w.IOC, path, syscall.O_RDONLY|syscall.O_NONBLOCK, 0)
		if err != nil {
			return nil, err
		}
		peer, err = syscall.Open(path, syscall.O_WRONLY|syscall.O_NONBLOCK|syscall.O_CLOEXEC, 0)
	} else {
		peer, err = syscall.Open(path, syscall.O_RDONLY|syscall.O_NONBLOCK|syscall.O_CLOEXEC, 0)
		if err != nil {
			return nil, err
		}
		f, err = sonic.Open(w.IOC, path, syscall.O_WRONLY|syscall.O_NONBLOCK, 0)
	}
	if err != nil {
		if f != nil {
			f.Close()
		}
		if peer > 0 {
			syscall.Close(peer)
		}
		return nil, err
	}
	_, _ = unix.FcntlInt(uintptr(peer), unix.F_SETPIPE_SZ, 4096)
	k := KFifoW
	if reader {
		k = KFifoR
	}
	return w.add(&Obj{Kind: k, FD: f, Raw: f.RawFd(), Peer: peer, Small: true}), nil
}

func (w *World) NewRegFile(content []byte) (*Obj, error) {
	path := filepath.Join(w.Dir, fmt.Sprintf("reg%d", len(w.Objs)))
	if err := os.WriteFile(path, content, 0o600); err != nil {
		return nil, err
	}
	f, err := sonic.Open(w.IOC, path, syscall.O_RDWR|syscall.O_NONBLOCK, 0)
	if err != nil {
		return nil, err
	}
	return w.add(&Obj{Kind: KRegFile, FD: f, Raw: f.RawFd(), Peer: -1, path: path}), nil
}

func (w *World) NewUDP() (*Obj, error) {
	pc, err := sonic.NewPacketConn(w.IOC, "udp", "127.0.0.1:0")
	if err != nil {
		return nil, err
	}
	peer, port, err := rawpeer.UDP4([4]byte{127, 0, 0, 1})
	if err != nil {
		pc.Close()
		return nil, err
	}
	return w.add(&Obj{Kind: KUDP, PC: pc, Raw: pc.RawFd(), Peer: peer, PeerPort: port}), nil
}

// NewConnUDP dials a raw UDP peer: a connected UDP socket. Socket errors reach it asynchronously (a datagram sent to
// a port nobody listens on comes back as ICMP port-unreachable and leaves ECONNREFUSED pending: EPOLLERR alone).
func (w *World) NewConnUDP() (*Obj, error) {
	peer, port, err := rawpeer.UDP4([4]byte{127, 0, 0, 1})
	if err != nil {
		return nil, err
	}
	cn, err := sonic.Dial(w.IOC, "udp", rawpeer.AddrOf(port))
	if err != nil {
		syscall.Close(peer)
		return nil, err
	}
	return w.add(&Obj{Kind: KConnUDP, FD: cn, Raw: cn.RawFd(), Peer: peer, PeerPort: port}), nil
}

func (w *World) NewObj(k Kind, small bool) (*Obj, error) {
	switch k {
	case KConnUDP:
		return w.NewConnUDP()
	case KConnDialed:
		return w.NewDialed(small)
	case KConnAccepted:
		return w.NewAccepted(small)
	case KAdapter:
		return w.NewAdapter(small)
	case KFifoR:
		return w.NewFifo(true)
	case KFifoW:
		return w.NewFifo(false)
	case KUDP:
		return w.NewUDP()
	case KListener:
		return w.NewListener()
	case KRegFile:
		return w.NewRegFile(w.R.Bytes(4096))
	}
	return nil, fmt.Errorf("unknown kind")
}

// ---------------------------------------------------------------- ledger

func (w *World) newOp(o *Obj, kind string, dir int, all bool, beh Behaviour, target *Obj, forced bool) *Op {
	op := &Op{ID: len(w.Ops), O: o, Kind: kind, Dir: dir, All: all, Beh: beh, Target: target, Forced: forced}
	op.OnDone, w.NextOnDone = w.NextOnDone, nil
	w.Ops = append(w.Ops, op)
	if dir == 0 {
		o.Rd = op
	} else {
		o.Wr = op
	}
	return op
}

// enter is run on entry of every completion callback.
func (w *World) enter(op *Op, err error, n int) bool {
	op.Calls++
	w.HandlersInPoll++
	w.Depth++
	if w.Depth > w.MaxDepth {
		w.MaxDepth = w.Depth
	}
	op.Err, op.N = err, n
	w.C.Logf("    <- op%d %s %s completes (err=%v n=%d depth=%d call#%d)", op.ID, op.O, op.Kind, err, n, w.Depth, op.Calls)
	if op.Calls > 1 {
		w.C.Failf("callback-invoked-twice/"+op.Kind+"/"+op.O.Kind.String(), "op%d %s on %s: completion callback invoked %d times", op.ID, op.Kind, op.O, op.Calls)
		return false
	}
	if op.O.Closed {
		w.C.Failf("callback-after-close/"+op.Kind+"/"+op.O.Kind.String(), "op%d %s on %s: completion callback invoked after Close returned (err=%v)", op.ID, op.Kind, op.O, err)
		return false
	}
	if errors.Is(err, sonicerrors.ErrWouldBlock) {
		// "would block" is the condition an asynchronous operation exists to wait out: handing it to the completion
		// callback means the operation was given up, not completed (the data that arrives next completes nothing)
		w.C.Failf("completed-with-would-block/"+op.Kind+"/"+op.O.Kind.String(), "op%d %s on %s: the completion callback was invoked with %v (n=%d): the operation was neither performed nor failed, it was dropped", op.ID, op.Kind, op.O, err, n)
		return false
	}
	if op.Dir == 0 && op.O.Rd == op {
		op.O.Rd = nil
	}
	if op.Dir == 1 && op.O.Wr == op {
		op.O.Wr = nil
	}
	path := "deferred"
	if !op.Started {
		path = "inline"
	}
	if errors.Is(err, sonicerrors.ErrCancelled) {
		path = "cancel"
	}
	w.ByPath[path]++
	return true
}

func (w *World) leave() { w.Depth-- }

func (w *World) force(forced bool) func() {
	if !forced {
		return func() {}
	}
	saved := w.IOC.Dispatched
	w.IOC.Dispatched = sonic.MaxCallbackDispatch
	return func() { w.IOC.Dispatched = saved }
}

func (w *World) afterStart(op *Op) {
	op.Started = true
	op.Deferred = op.Calls == 0
}

func (w *World) handler(op *Op) {
	if op.OnDone != nil {
		op.OnDone(op)
	}
	w.behave(op)
}

// StartStream starts AsyncRead/AsyncReadAll/AsyncWrite/AsyncWriteAll on a stream-like object.
func (w *World) StartStream(o *Obj, dir int, all bool, size int, beh Behaviour, target *Obj, forced bool) *Op {
	if o.FD == nil || o.Closed || o.Closing {
		return nil
	}
	if (dir == 0 && o.Rd != nil) || (dir == 1 && o.Wr != nil) {
		return nil
	}
	kind := "read"
	if dir == 1 {
		kind = "write"
	}
	if all {
		kind += "all"
	}
	op := w.newOp(o, kind, dir, all, beh, target, forced)
	op.Buf = make([]byte, size)
	w.C.Logf("  start op%d %s(%d bytes) on %s forced=%v handler=%s target=%v", op.ID, kind, size, o, forced, beh, target)
	cb := func(err error, n int) {
		if w.enter(op, err, n) {
			w.handler(op)
		}
		w.leave()
	}
	restore := w.force(forced)
	switch {
	case dir == 0 && !all:
		o.FD.AsyncRead(op.Buf, cb)
	case dir == 0:
		o.FD.AsyncReadAll(op.Buf, cb)
	case !all:
		o.FD.AsyncWrite(op.Buf, cb)
	default:
		o.FD.AsyncWriteAll(op.Buf, cb)
	}
	restore()
	w.afterStart(op)
	return op
}

func (w *World) StartAccept(l *Obj, beh Behaviour, target *Obj, forced bool) *Op {
	if l.LN == nil || l.Closed || l.Closing || l.Rd != nil {
		return nil
	}
	op := w.newOp(l, "accept", 0, false, beh, target, forced)
	w.C.Logf("  start op%d accept on %s forced=%v handler=%s (backlog %d)", op.ID, l, forced, beh, len(l.Backlog))
	restore := w.force(forced)
	l.LN.AsyncAccept(func(err error, c sonic.Conn) {
		if w.enter(op, err, 0) {
			if err == nil && c != nil {
				op.Accepted = c
				w.adoptAccepted(l, c)
			}
			w.handler(op)
		}
		w.leave()
	})
	restore()
	w.afterStart(op)
	return op
}

func (w *World) StartPacket(o *Obj, dir int, size int, beh Behaviour, target *Obj, forced bool) *Op {
	if o.PC == nil || o.Closed || o.Closing {
		return nil
	}
	if (dir == 0 && o.Rd != nil) || (dir == 1 && o.Wr != nil) {
		return nil
	}
	kind := "readfrom"
	if dir == 1 {
		kind = "writeto"
	}
	op := w.newOp(o, kind, dir, false, beh, target, forced)
	op.Buf = make([]byte, size)
	w.C.Logf("  start op%d %s(%d bytes) on %s forced=%v handler=%s", op.ID, kind, size, o, forced, beh)
	restore := w.force(forced)
	if dir == 0 {
		o.PC.AsyncReadFrom(op.Buf, func(err error, n int, _ net.Addr) {
			if w.enter(op, err, n) {
				w.handler(op)
			}
			w.leave()
		})
	} else {
		to := &net.UDPAddr{IP: net.IPv4(127, 0, 0, 1), Port: o.PeerPort}
		o.PC.AsyncWriteTo(op.Buf, to, func(err error) {
			if w.enter(op, err, len(op.Buf)) {
				w.handler(op)
			}
			w.leave()
		})
	}
	restore()
	w.afterStart(op)
	return op
}

// Restart issues the same kind of operation again (used by re-issuing handlers).
func (w *World) Restart(op *Op, beh Behaviour, forced bool) *Op {
	o := op.O
	if o.Closed || o.Closing {
		return nil
	}
	var nop *Op
	switch op.Kind {
	case "accept":
		nop = w.StartAccept(o, beh, op.Target, forced)
	case "readfrom", "writeto":
		nop = w.StartPacket(o, op.Dir, len(op.Buf), beh, op.Target, forced)
	default:
		nop = w.StartStream(o, op.Dir, op.All, len(op.Buf), beh, op.Target, forced)
	}
	return nop
}

func (w *World) behave(op *Op) {
	t := op.Target
	switch op.Beh {
	case BReissue:
		if op.Err == nil || errors.Is(op.Err, sonicerrors.ErrCancelled) {
			if nop := w.Restart(op, BNone, false); nop != nil {
				nop.OnDone = op.OnDone
			}
		}
	case BCancelOther:
		if t != nil {
			w.Cancel(t)
		}
	case BCloseOther:
		if t != nil {
			w.Close(t)
		}
	case BCancelRestartOther:
		if t != nil && t.FD != nil && !t.Closed && !t.Closing {
			had := t.Rd
			w.Cancel(t)
			if had != nil && t.Rd == nil {
				w.StartStream(t, 0, false, len(had.Buf), BNone, nil, true)
			}
		}
	case BCloseSelf:
		w.Close(op.O)
	case BCancelSelf:
		w.Cancel(op.O)
	case BDrainOther:
		// what another handler of the same batch may legitimately do: consume the data whose arrival made the
		// target ready. The target's own handler then finds nothing and its operation has to stay in flight.
		if t != nil && !t.Closed && !t.Closing && t.Raw >= 0 && (t.Kind == KConnDialed || t.Kind == KConnAccepted || t.Kind == KFifoR || t.Kind == KUDP || t.Kind == KConnUDP) {
			// (not an adapter: reading behind the back of the net.Conn it owns is not something a program can do through the
			// API, and its handler would park in net.Conn.Read)
			d, _, _ := rawpeer.Drain(t.Raw, 1<<20)
			w.C.Logf("      handler of op%d drains %s: %d bytes taken", op.ID, t, len(d))
			w.C.Count("drains_of_another_object_from_a_handler", 1)
		}
	}
}

// Cancel cancels o's in-flight operations and checks the Cancel clause of C01.
func (w *World) Cancel(o *Obj) {
	if o.FD == nil || o.Closed || o.Closing {
		return
	}
	var expect []*Op
	for _, op := range []*Op{o.Rd, o.Wr} {
		if op != nil && op.Calls == 0 && op.Started && op.Deferred {
			op.ExpectCancel = true
			expect = append(expect, op)
		}
	}
	w.C.Logf("  Cancel(%s) with %d deferred operation(s)", o, len(expect))
	o.FD.Cancel()
	for _, op := range expect {
		if o.Closed {
			break // a cancellation handler closed the object: the other operation is abandoned
		}
		if op.Calls != 1 {
			w.C.Failf("cancel-did-not-complete-operation/"+op.Kind+"/"+o.Kind.String(), "Cancel(%s) returned but deferred op%d %s was completed %d times", o, op.ID, op.Kind, op.Calls)
		} else if !errors.Is(op.Err, sonicerrors.ErrCancelled) {
			w.C.Failf("cancel-completed-with-other-error/"+op.Kind+"/"+o.Kind.String(), "Cancel(%s): op%d %s completed with %v instead of a cancellation error", o, op.ID, op.Kind, op.Err)
		}
	}
}

func (w *World) Close(o *Obj) {
	if o.Closed || o.Closing {
		return
	}
	w.C.Logf("  Close(%s) (read in flight: %v, write in flight: %v)", o, o.Rd != nil, o.Wr != nil)
	w.rawClose(o)
}

// ---------------------------------------------------------------- peer actions

func (w *World) PeerWrite(o *Obj, n int) int {
	if o.Peer < 0 {
		return 0
	}
	if o.Kind == KUDP || o.Kind == KConnUDP {
		sa, err := syscall.Getsockname(o.Raw)
		if err != nil {
			return 0
		}
		if err := syscall.Sendto(o.Peer, w.R.Bytes(max(n, 1)), 0, sa); err != nil {
			return 0
		}
		return n
	}
	k, _ := rawpeer.WriteSome(o.Peer, w.R.Bytes(n))
	return k
}

// EnsureUDPPeer gives a UDP object a fresh raw sender if its previous one was closed.
func (w *World) EnsureUDPPeer(o *Obj) {
	if o.Kind == KUDP && o.Peer < 0 {
		if fd, port, err := rawpeer.UDP4([4]byte{127, 0, 0, 1}); err == nil {
			o.Peer, o.PeerPort = fd, port
		}
	}
}

func (w *World) PeerDrain(o *Obj) int {
	if o.Peer < 0 {
		return 0
	}
	d, _, _ := rawpeer.Drain(o.Peer, 1<<26)
	return len(d)
}

func (w *World) PeerShutdownWrite(o *Obj) {
	if o.Peer >= 0 && o.Kind != KUDP && o.Kind != KConnUDP {
		_ = syscall.Shutdown(o.Peer, syscall.SHUT_WR)
	}
}

func (w *World) PeerClose(o *Obj) {
	if o.Peer >= 0 {
		syscall.Close(o.Peer)
		o.Peer = -1
		o.PeerGone = true
	}
}

func (w *World) PeerReset(o *Obj) {
	if o.Peer >= 0 {
		rawpeer.Reset(o.Peer)
		o.Peer = -1
		o.PeerGone = true
	}
}

// ---------------------------------------------------------------- polling with the readiness oracle

func (w *World) InFlight() []*Op {
	var out []*Op
	for _, o := range w.Objs {
		if o.Closed || o.Closing {
			continue
		}
		for _, op := range []*Op{o.Rd, o.Wr} {
			if op != nil && op.Calls == 0 && op.Started {
				out = append(out, op)
			}
		}
	}
	return out
}

func readyFor(op *Op) (bool, int16) {
	var ev int16 = unix.POLLIN
	if op.Dir == 1 {
		ev = unix.POLLOUT
	}
	re := rawpeer.Ready(op.O.Raw, ev|unix.POLLRDHUP)
	mask := ev | unix.POLLHUP | unix.POLLERR
	return re&mask != 0, re
}

func reventsClass(re int16) string {
	s := ""
	if re&unix.POLLIN != 0 {
		s += "IN"
	}
	if re&unix.POLLOUT != 0 {
		s += "OUT"
	}
	if re&unix.POLLHUP != 0 {
		s += "HUP"
	}
	if re&unix.POLLERR != 0 {
		s += "ERR"
	}
	return s
}

// Poll runs one PollOne cycle under the oracle. It returns PollOne's results and how many operations
// poll(2) reported ready beforehand.
func (w *World) Poll() (n int, err error, ready int) {
	inflight := w.InFlight()
	kinds := map[string]bool{}
	for _, op := range inflight {
		ok, re := readyFor(op)
		op.LastRevents = re
		if ok {
			op.ReadyCycles++
			ready++
			kinds[op.O.String()] = true
		} else {
			op.ReadyCycles = 0
		}
	}
	w.readyBefore = ready
	w.HandlersInPoll = 0
	w.TopLevel = false
	w.C.Bounded("loop-blocked-in-pollone", 40*time.Second, func() { n, err = w.IOC.PollOne() })
	w.TopLevel = true
	w.Tick++
	w.C.Logf("  PollOne -> n=%d err=%v handlers=%d (poll(2) said %d operation(s) ready)", n, err, w.HandlersInPoll, ready)
	if ready > 0 || w.HandlersInPoll > 0 {
		w.Batches++
		if len(kinds) >= 2 {
			w.BatchesGE2++
		}
	}
	if w.LostCheck {
		for _, op := range inflight {
			if op.Calls == 0 && !op.O.Closed && !op.O.Closing && !op.All && op.ReadyCycles >= 3 &&
				((op.Dir == 0 && op.O.Rd == op) || (op.Dir == 1 && op.O.Wr == op)) {
				w.C.Failf("lost-completion/"+op.O.Kind.String()+"/"+op.Kind+"/"+reventsClass(op.LastRevents),
					"op%d %s on %s: poll(2) has reported the descriptor ready (%s) before each of the last %d PollOne cycles and the operation still has not completed",
					op.ID, op.Kind, op.O, reventsClass(op.LastRevents), op.ReadyCycles)
			}
		}
	}
	return
}

// ShadowPending is what IO.Pending() must equal at a quiescent point.
func (w *World) ShadowPending() int {
	return len(w.InFlight()) + w.ArmedTimers + w.PostsQueued
}

// ---------------------------------------------------------------- timers and posts (C03)

type Tmr struct {
	T      *sonic.Timer
	Armed  bool
	Closed bool
	Short  bool
	Fired  int
}

func (w *World) NewTimer() (*Tmr, error) {
	t, err := sonic.NewTimer(w.IOC)
	if err != nil {
		return nil, err
	}
	tm := &Tmr{T: t}
	w.Timers = append(w.Timers, tm)
	return tm, nil
}

// Arm schedules the timer once; the shadow count follows the statement: an armed timer is an operation
// in flight until it fires, is cancelled or is closed.
func (w *World) Arm(tm *Tmr, d time.Duration) error {
	if tm.Closed || tm.Armed {
		return nil
	}
	err := tm.T.ScheduleOnce(d, func() {
		tm.Armed = false
		tm.Fired++
		w.ArmedTimers--
		if tm.Short {
			w.ArmedShort--
		}
		w.HandlersInPoll++
		w.C.Logf("    <- timer fired")
	})
	if err == nil {
		tm.Armed = true
		tm.Short = d < time.Second
		w.ArmedTimers++
		if tm.Short {
			w.ArmedShort++
		}
	}
	return err
}

func (w *World) CancelTimer(tm *Tmr) {
	if tm.Closed {
		return
	}
	if err := tm.T.Cancel(); err == nil && tm.Armed {
		tm.Armed = false
		w.ArmedTimers--
		if tm.Short {
			w.ArmedShort--
		}
	}
}

func (w *World) CloseTimer(tm *Tmr) {
	if tm.Closed {
		return
	}
	if err := tm.T.Close(); err == nil {
		tm.Closed = true
		if tm.Armed {
			tm.Armed = false
			w.ArmedTimers--
			if tm.Short {
				w.ArmedShort--
			}
		}
	}
}

func (w *World) Post(fn func()) {
	w.PostsQueued++
	_ = w.IOC.Post(func() {
		w.PostsQueued--
		w.HandlersInPoll++
		w.C.Logf("    <- posted handler runs")
		if fn != nil {
			fn()
		}
	})
}

func (w *World) CloseTimers() {
	for _, tm := range w.Timers {
		if !tm.Closed {
			_ = tm.T.Close()
			tm.Closed = true
		}
	}
}

// EnterCB / LeaveCB let a check account callbacks of operations it starts itself (e.g. on a multicast peer)
// in the same nesting counter.
func (w *World) EnterCB() {
	w.Depth++
	if w.Depth > w.MaxDepth {
		w.MaxDepth = w.Depth
	}
	w.HandlersInPoll++
}

func (w *World) LeaveCB() { w.Depth-- }
